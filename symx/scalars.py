"""Symbolic scalar proxies (REAL theory): SymReal, SymInt, SymBool, SymComplex.

They are ordinary Python objects wrapping z3 terms, registered with the
``numbers`` ABCs, and designed to live inside real NumPy ``dtype=object`` arrays:
NumPy's object loops call ``__add__``, ``__mul__``, ``__lt__``, ``sqrt()``,
``cos()`` ... on them.
"""
from __future__ import annotations

import math
import numbers
from fractions import Fraction

import numpy as np
import z3

from . import core
from .core import Unsupported

_PI = math.pi


# --------------------------------------------------------------------------
def is_sym(x):
    return isinstance(x, Sym)


def _rv(x):
    """python real -> z3 Real numeral (exact value of the double)"""
    if isinstance(x, bool):
        return z3.RealVal(int(x))
    if isinstance(x, int):
        return z3.RealVal(x)
    if isinstance(x, Fraction):
        return z3.RealVal(x)
    if isinstance(x, float):
        if x != x or x in (math.inf, -math.inf):
            raise Unsupported(f"non-finite constant {x} in symbolic arithmetic")
        return z3.RealVal(Fraction(x))
    raise TypeError(type(x))


def _py(x):
    """numpy scalar -> python scalar"""
    if isinstance(x, np.generic):
        return x.item()
    if isinstance(x, np.ndarray) and x.ndim == 0:
        return x.item()
    return x


def as_real_term(x):
    x = _py(x)
    if isinstance(x, SymReal):
        return x.t
    if isinstance(x, SymInt):
        return z3.ToReal(x.t)
    if isinstance(x, SymBool):
        return z3.If(x.t, z3.RealVal(1), z3.RealVal(0))
    if isinstance(x, (bool, int, float, Fraction)):
        return _rv(x)
    raise TypeError(f"cannot lift {type(x)} to Real")


def as_int_term(x):
    x = _py(x)
    if isinstance(x, SymInt):
        return x.t
    if isinstance(x, SymBool):
        return z3.If(x.t, z3.IntVal(1), z3.IntVal(0))
    if isinstance(x, bool):
        return z3.IntVal(int(x))
    if isinstance(x, int):
        return z3.IntVal(x)
    raise TypeError(f"cannot lift {type(x)} to Int")


def as_bool_term(x):
    x = _py(x)
    if isinstance(x, SymBool):
        return x.t
    if isinstance(x, bool):
        return z3.BoolVal(x)
    if isinstance(x, (SymReal, SymInt)):
        return (x != 0).t
    if isinstance(x, (int, float)):
        return z3.BoolVal(bool(x))
    raise TypeError(f"cannot lift {type(x)} to Bool")


def _is_intlike(x):
    x = _py(x)
    return isinstance(x, (SymInt, SymBool)) or (isinstance(x, int))


def _num(x):
    """is x something we can do real arithmetic with?"""
    x = _py(x)
    return isinstance(x, (SymReal, SymInt, SymBool, bool, int, float, Fraction))


def _mk(term):
    """wrap an arithmetic z3 term, folding numerals"""
    if z3.is_int(term):
        return SymInt(term)
    return SymReal(term)


def _fold(term):
    # cheap constant folding: only when all children are numerals
    if all(z3.is_int_value(c) or z3.is_rational_value(c) for c in term.children()):
        return z3.simplify(term)
    return term


class Sym:
    __slots__ = ("t",)


    def __hash__(self):
        return id(self)

    def __repr__(self):
        s = str(self.t).replace("\n", " ")
        if len(s) > 60:
            s = s[:57] + "..."
        return f"{type(self).__name__}({s})"

    __str__ = __repr__

    def __format__(self, spec):
        return repr(self)

    def __deepcopy__(self, memo):
        return self

    # numpy-scalar look-alikes (np.float64 has them; library code calls e.g. `.size` on 0-d results)
    size = 1
    ndim = 0
    shape = ()

    def item(self):
        return self

    def tolist(self):
        return self

    def copy(self):
        return self

    def __copy__(self):
        return self


# --------------------------------------------------------------------------
class SymBool(Sym):
    __slots__ = ()

    def __init__(self, t):
        self.t = t

    def __bool__(self):
        c = core.ctx()
        t = z3.simplify(self.t)
        if z3.is_true(t):
            return True
        if z3.is_false(t):
            return False
        if c is None:
            raise Unsupported("bool() of symbolic value outside an exploration")
        return c.branch(t)

    def __and__(self, o):
        o = _py(o)
        if isinstance(o, (SymBool, bool)):
            return mkbool(z3.And(self.t, as_bool_term(o)))
        return NotImplemented

    __rand__ = __and__

    def __or__(self, o):
        o = _py(o)
        if isinstance(o, (SymBool, bool)):
            return mkbool(z3.Or(self.t, as_bool_term(o)))
        return NotImplemented

    __ror__ = __or__

    def __xor__(self, o):
        o = _py(o)
        if isinstance(o, (SymBool, bool)):
            return mkbool(z3.Xor(self.t, as_bool_term(o)))
        return NotImplemented

    __rxor__ = __xor__

    def __invert__(self):
        return mkbool(z3.Not(self.t))

    def logical_not(self):
        return mkbool(z3.Not(self.t))

    def __eq__(self, o):
        o = _py(o)
        if isinstance(o, (SymBool, bool)):
            return mkbool(self.t == as_bool_term(o))
        if _num(o):
            return self._as_int() == o
        return False

    def __ne__(self, o):
        r = self.__eq__(o)
        if isinstance(r, SymBool):
            return ~r
        return not r

    __hash__ = Sym.__hash__

    def _as_int(self):
        return SymInt(z3.If(self.t, z3.IntVal(1), z3.IntVal(0)))

    def __int__(self):
        return int(bool(self))

    def __index__(self):
        return int(bool(self))

    def __float__(self):
        return float(bool(self))

    # arithmetic behaves like 0/1 integers
    def __add__(self, o):
        return self._as_int() + o

    __radd__ = __add__

    def __mul__(self, o):
        return self._as_int() * o

    __rmul__ = __mul__

    def __sub__(self, o):
        return self._as_int() - o

    def __rsub__(self, o):
        return o - self._as_int()

    def __neg__(self):
        return -self._as_int()


def mkbool(t):
    """SymBool, or python bool when the term folds"""
    if z3.is_true(t):
        return True
    if z3.is_false(t):
        return False
    if t.num_args() <= 4:
        s = z3.simplify(t)
        if z3.is_true(s):
            return True
        if z3.is_false(s):
            return False
    return SymBool(t)


# --------------------------------------------------------------------------
def _round_half_even_term(x):
    f = z3.ToInt(x + z3.RealVal(Fraction(1, 2)))
    return z3.If(z3.And(z3.ToReal(f) == x + z3.RealVal(Fraction(1, 2)), f % 2 == 1), f - 1, f)


def uf(name, *args):
    """uninterpreted real function applied to real terms"""
    f = z3.Function(name, *([z3.RealSort()] * len(args)), z3.RealSort())
    return f(*args)


class _Arith(Sym):
    """shared arithmetic of SymReal / SymInt"""

    __slots__ = ()

    # --- helpers
    def _coerce(self, o):
        """-> (a_term, b_term, is_int)"""
        o = _py(o)
        if isinstance(o, SymComplex) or isinstance(o, complex):
            return None
        if not _num(o):
            return None
        if isinstance(self, SymInt) and _is_intlike(o):
            return self.t, as_int_term(o), True
        return as_real_term(self), as_real_term(o), False

    def __add__(self, o):
        if isinstance(_py(o), (complex, SymComplex)):
            return SymComplex(self, 0.0).__add__(o)
        c = self._coerce(o)
        if c is None:
            return NotImplemented
        return _mk(_fold(c[0] + c[1]))

    __radd__ = __add__

    def __sub__(self, o):
        if isinstance(_py(o), (complex, SymComplex)):
            return SymComplex(self, 0.0).__sub__(o)
        c = self._coerce(o)
        if c is None:
            return NotImplemented
        return _mk(_fold(c[0] - c[1]))

    def __rsub__(self, o):
        if isinstance(_py(o), (complex, SymComplex)):
            return SymComplex(self, 0.0).__rsub__(o)
        c = self._coerce(o)
        if c is None:
            return NotImplemented
        return _mk(_fold(c[1] - c[0]))

    def __mul__(self, o):
        if isinstance(_py(o), (complex, SymComplex)):
            return SymComplex(self, 0.0).__mul__(o)
        c = self._coerce(o)
        if c is None:
            return NotImplemented
        a, b, _ = c
        # fold multiplication by concrete 0 / 1
        for u, v in ((a, b), (b, a)):
            if z3.is_int_value(u) or z3.is_rational_value(u):
                if u.as_fraction() == 0:
                    return _mk(z3.IntVal(0) if z3.is_int(a) else z3.RealVal(0))
                if u.as_fraction() == 1:
                    return _mk(v)
        return _mk(_fold(a * b))

    __rmul__ = __mul__

    def _div(self, a, b):
        # real division; zero divisors are side conditions checked per path
        if z3.is_rational_value(b) or z3.is_int_value(b):
            if b.as_fraction() == 0:
                raise ZeroDivisionError("symbolic division by concrete zero")
        else:
            c = core.ctx()
            if c is not None:
                c.note_divisor(b)
        return SymReal(_fold(a / b))

    def __truediv__(self, o):
        if isinstance(_py(o), (complex, SymComplex)):
            return SymComplex(self, 0.0).__truediv__(o)
        o = _py(o)
        if not _num(o):
            return NotImplemented
        return self._div(as_real_term(self), as_real_term(o))

    def __rtruediv__(self, o):
        if isinstance(_py(o), (complex, SymComplex)):
            return SymComplex(self, 0.0).__rtruediv__(o)
        o = _py(o)
        if not _num(o):
            return NotImplemented
        return self._div(as_real_term(o), as_real_term(self))

    def __floordiv__(self, o):
        c = self._coerce(o)
        if c is None:
            return NotImplemented
        a, b, isint = c
        if isint:
            if z3.is_int_value(b):
                bv = b.as_long()
                if bv == 0:
                    raise ZeroDivisionError
                if bv > 0:
                    return SymInt(_fold(a / b))
                return SymInt(_fold((-a) / z3.IntVal(-bv)))
            cx = core.ctx()
            if cx is not None:
                cx.note_divisor(b)
            return SymInt(z3.If(b > 0, a / b, (-a) / (-b)))
        q = self._div(a, b)
        return SymReal(z3.ToReal(z3.ToInt(q.t)))

    def __rfloordiv__(self, o):
        o = _py(o)
        if not _num(o):
            return NotImplemented
        return _lift(o).__floordiv__(self)

    def __mod__(self, o):
        c = self._coerce(o)
        if c is None:
            return NotImplemented
        a, b, isint = c
        q = self.__floordiv__(o)
        if isint:
            return SymInt(_fold(a - b * q.t))
        return SymReal(_fold(a - b * q.t))

    def __rmod__(self, o):
        o = _py(o)
        if not _num(o):
            return NotImplemented
        return _lift(o).__mod__(self)

    def remainder(self, o):
        return self.__mod__(o)

    def __pow__(self, o):
        o = _py(o)
        if isinstance(o, SymInt):
            s = z3.simplify(o.t)
            if z3.is_int_value(s):
                o = s.as_long()
        if isinstance(o, float) and o == int(o) and abs(o) < 64:
            o = int(o)
        if isinstance(o, bool):
            o = int(o)
        if isinstance(o, int):
            if o == 0:
                return 1 if isinstance(self, SymInt) else 1.0
            neg = o < 0
            r = self
            for _ in range(abs(o) - 1):
                r = r * self
            return (1 / r) if neg else r
        if isinstance(o, float) and o == 0.5:
            return self.sqrt()
        if _num(o):
            return SymReal(uf("pow", as_real_term(self), as_real_term(o)))
        return NotImplemented

    def __rpow__(self, o):
        o = _py(o)
        if _num(o):
            return SymReal(uf("pow", as_real_term(o), as_real_term(self)))
        return NotImplemented

    def __neg__(self):
        return _mk(_fold(-self.t))

    def __pos__(self):
        return self

    def __abs__(self):
        t = self.t
        s = z3.simplify(t)
        if z3.is_int_value(s) or z3.is_rational_value(s):
            return _mk(z3.simplify(z3.If(s >= 0, s, -s)))
        return _mk(z3.If(t >= 0, t, -t))

    def absolute(self):
        return abs(self)

    # --- comparisons
    def _cmp(self, o, op):
        c = self._coerce(o)
        if c is None:
            return NotImplemented
        return mkbool(op(c[0], c[1]))

    def __lt__(self, o):
        return self._cmp(o, lambda a, b: a < b)

    def __le__(self, o):
        return self._cmp(o, lambda a, b: a <= b)

    def __gt__(self, o):
        return self._cmp(o, lambda a, b: a > b)

    def __ge__(self, o):
        return self._cmp(o, lambda a, b: a >= b)

    def __eq__(self, o):
        o = _py(o)
        if isinstance(o, (SymComplex, complex)):
            return SymComplex(self, 0.0) == o
        r = self._cmp(o, lambda a, b: a == b)
        return False if r is NotImplemented else r

    def __ne__(self, o):
        o = _py(o)
        if isinstance(o, (SymComplex, complex)):
            return SymComplex(self, 0.0) != o
        r = self._cmp(o, lambda a, b: a != b)
        return True if r is NotImplemented else r

    __hash__ = Sym.__hash__

    def __bool__(self):
        return bool(self != 0)

    # --- rounding
    def __floor__(self):
        if isinstance(self, SymInt):
            return self
        return SymInt(z3.ToInt(self.t))

    def __ceil__(self):
        if isinstance(self, SymInt):
            return self
        return SymInt(-z3.ToInt(-self.t))

    def __trunc__(self):
        if isinstance(self, SymInt):
            return self
        t = self.t
        return SymInt(z3.If(t >= 0, z3.ToInt(t), -z3.ToInt(-t)))

    def __round__(self, nd=None):
        if isinstance(self, SymInt):
            return self
        if nd not in (None, 0):
            raise Unsupported("round to decimals on symbolic value")
        return SymInt(_round_half_even_term(self.t))

    # numpy object-loop fallbacks (np.floor(objarr) calls elem.floor() / math.floor)
    def floor(self):
        return SymReal(z3.ToReal(self.__floor__().t)) if isinstance(self, SymReal) else self

    def ceil(self):
        return SymReal(z3.ToReal(self.__ceil__().t)) if isinstance(self, SymReal) else self

    def rint(self):
        return SymReal(z3.ToReal(self.__round__().t)) if isinstance(self, SymReal) else self

    def trunc(self):
        return SymReal(z3.ToReal(self.__trunc__().t)) if isinstance(self, SymReal) else self

    # --- complex protocol
    @property
    def real(self):
        return self

    @property
    def imag(self):
        return 0 if isinstance(self, SymInt) else 0.0

    def conjugate(self):
        return self

    def conj(self):
        return self

    # --- transcendental (uninterpreted; see DESIGN 1.1)
    def sqrt(self):
        a = as_real_term(self)
        s = z3.simplify(a)
        if z3.is_rational_value(s):
            fr = s.as_fraction()
            if fr >= 0:
                r = Fraction(math.isqrt(fr.numerator), math.isqrt(fr.denominator))
                if r * r == fr:
                    return SymReal(z3.RealVal(r))
        c = core.ctx()
        if c is None:
            raise Unsupported("sqrt outside exploration")
        # radicand fixed by the path condition (e.g. |v|^2 = 1 was assumed): the root is that constant's root
        ukey = ("sqrt-unique", s.get_id())
        hit = c.cache.get(ukey)
        if hit is not None and hit[1].eq(s) and hit[2] == len(c.pc):
            uv = hit[0]
        else:
            try:
                uv = unique_value(c, s)
            except core.SolverUnknown:
                uv = None
            c.cache[ukey] = (uv, s, len(c.pc))
        if uv is not None:
            fr = Fraction(uv)
            if fr >= 0:
                r = Fraction(math.isqrt(fr.numerator), math.isqrt(fr.denominator))
                if r * r == fr:
                    return SymReal(z3.RealVal(r))
        # one root symbol per polynomial: key on the sum-of-monomials normal form, so that the same radicand built in a
        # different association order (library vs oracle) shares its root and UF congruence can see it
        try:
            canon = z3.simplify(a, som=True, sort_sums=True)
        except z3.Z3Exception:
            canon = s
        key = ("sqrt", canon.get_id())
        hit = c.cache.get(key)
        if hit is not None and hit[1].eq(canon):
            r = hit[0]
        else:
            r = c.fresh("sqrt")
            c.cache[key] = (r, canon)
        # exact encoding: r >= 0 /\ (a >= 0 -> r*r == a); never restricts the inputs
        c.add_aux(z3.And(r >= 0, z3.Implies(a >= 0, r * r == a)), ("sqrt", a, r))
        return SymReal(r)

    def _uf1(name):
        def f(self):
            return SymReal(uf(name, as_real_term(self)))

        f.__name__ = name
        return f

    cos = _uf1("cos")
    sin = _uf1("sin")
    tan = _uf1("tan")
    arcsin = _uf1("arcsin")
    arctan = _uf1("arctan")
    arcsinh = _uf1("arcsinh")
    exp = _uf1("exp")
    log = _uf1("log")
    log10 = _uf1("log10")
    degrees = _uf1("degrees")
    rad2deg = _uf1("degrees")
    radians = _uf1("radians")
    deg2rad = _uf1("radians")
    del _uf1

    def arccos(self):
        t = uf("arccos", as_real_term(self))
        c = core.ctx()
        if c is not None:
            c.add_aux(z3.And(t >= 0, t <= z3.RealVal(Fraction(_PI))), ("arccos-range", t))
        return SymReal(t)

    def arctan2(self, o):
        return SymReal(uf("arctan2", as_real_term(self), as_real_term(o)))

    def square(self):
        return self * self

    def sign(self):
        t = self.t
        return _mk(z3.If(t > 0, 1, z3.If(t < 0, -1, 0))) if isinstance(self, SymInt) else SymReal(
            z3.If(t > 0, z3.RealVal(1), z3.If(t < 0, z3.RealVal(-1), z3.RealVal(0)))
        )

    def isnan(self):
        return False

    def isfinite(self):
        return True

    def __complex__(self):
        return complex(float(self))

    def is_integer(self):
        if isinstance(self, SymInt):
            return True
        return mkbool(z3.ToReal(z3.ToInt(self.t)) == self.t)


class SymReal(_Arith):
    __slots__ = ()

    def __init__(self, t):
        if not z3.is_real(t):
            t = z3.ToReal(t)
        self.t = t

    def __float__(self):
        s = z3.simplify(self.t)
        if z3.is_rational_value(s):
            return float(s.as_fraction())
        c = core.ctx()
        if c is not None:
            v = unique_value(c, s)
            if v is not None:
                return float(v)
        raise Unsupported(f"float() of symbolic value {self}")

    def __int__(self):
        return int(self.__trunc__())


class SymInt(_Arith):
    __slots__ = ()

    def __init__(self, t):
        self.t = t

    def __index__(self):
        s = z3.simplify(self.t)
        if z3.is_int_value(s):
            return s.as_long()
        c = core.ctx()
        if c is None:
            raise Unsupported("index of symbolic int outside exploration")
        return c.concretize_int(s)

    __int__ = __index__

    def __float__(self):
        return float(self.__index__())

    def __and__(self, o):
        raise Unsupported("bitwise and on symbolic int")

    def __lshift__(self, o):
        raise Unsupported("shift on symbolic int")

    @property
    def numerator(self):
        return self

    @property
    def denominator(self):
        return 1


def unique_value(c, term):
    """Fraction if `term` has exactly one value under the pc, else None"""
    r, m = core.fresh_check(c.pc, c.timeout_ms, want_model=True, stats=c.stats)
    if r != "sat":
        return None
    v = m.eval(term, model_completion=True)
    try:
        pv = core.val_to_py(v)
    except ValueError:
        return None
    if not c.feasible(term != v):
        return pv
    return None


def _lift(o):
    o = _py(o)
    if isinstance(o, Sym):
        return o
    if isinstance(o, bool):
        return SymInt(z3.IntVal(int(o)))
    if isinstance(o, int):
        return SymInt(z3.IntVal(o))
    return SymReal(_rv(o))


# --------------------------------------------------------------------------
class SymComplex(Sym):
    """pair of real parts; parts are python floats or SymReal"""

    __slots__ = ("re", "im")

    def __init__(self, re, im):
        self.re = _py(re)
        self.im = _py(im)

    @property
    def t(self):  # for repr only
        return z3.RealVal(0)

    def __repr__(self):
        return f"SymComplex({self.re!r}, {self.im!r})"

    @staticmethod
    def _parts(o):
        o = _py(o)
        if isinstance(o, SymComplex):
            return o.re, o.im
        if isinstance(o, complex):
            return o.real, o.imag
        if _num(o):
            return o, 0.0
        return None

    @property
    def real(self):
        return self.re

    @property
    def imag(self):
        return self.im

    def conjugate(self):
        return SymComplex(self.re, -self.im)

    conj = conjugate

    def __add__(self, o):
        p = self._parts(o)
        if p is None:
            return NotImplemented
        return SymComplex(self.re + p[0], self.im + p[1])

    __radd__ = __add__

    def __sub__(self, o):
        p = self._parts(o)
        if p is None:
            return NotImplemented
        return SymComplex(self.re - p[0], self.im - p[1])

    def __rsub__(self, o):
        p = self._parts(o)
        if p is None:
            return NotImplemented
        return SymComplex(p[0] - self.re, p[1] - self.im)

    def __mul__(self, o):
        p = self._parts(o)
        if p is None:
            return NotImplemented
        return SymComplex(self.re * p[0] - self.im * p[1], self.re * p[1] + self.im * p[0])

    __rmul__ = __mul__

    def __truediv__(self, o):
        p = self._parts(o)
        if p is None:
            return NotImplemented
        c, d = p
        den = c * c + d * d
        return SymComplex((self.re * c + self.im * d) / den, (self.im * c - self.re * d) / den)

    def __rtruediv__(self, o):
        p = self._parts(o)
        if p is None:
            return NotImplemented
        return SymComplex(p[0], p[1]).__truediv__(self)

    def __neg__(self):
        return SymComplex(-self.re, -self.im)

    def __pos__(self):
        return self

    def __pow__(self, o):
        o = _py(o)
        if isinstance(o, float) and o == int(o):
            o = int(o)
        if isinstance(o, int) and 0 < o < 16:
            r = self
            for _ in range(o - 1):
                r = r * self
            return r
        raise Unsupported("complex power")

    def __abs__(self):
        return _lift(self.re * self.re + self.im * self.im).sqrt()

    def absolute(self):
        return abs(self)

    def __eq__(self, o):
        p = self._parts(o)
        if p is None:
            return False
        a = self.re == p[0]
        b = self.im == p[1]
        return mkbool(z3.And(as_bool_term(a), as_bool_term(b)))

    def __ne__(self, o):
        r = self.__eq__(o)
        return ~r if isinstance(r, SymBool) else (not r)

    __hash__ = Sym.__hash__

    def __bool__(self):
        return bool(self != 0)

    def angle(self):
        return SymReal(uf("arctan2", as_real_term(self.im), as_real_term(self.re)))


numbers.Real.register(SymReal)
numbers.Integral.register(SymInt)
numbers.Complex.register(SymComplex)


# --------------------------------------------------------------------------
# functional helpers used by the array layer and by oracles
def ite(c, a, b):
    c = _py(c)
    if isinstance(c, bool):
        return a if c else b
    ct = as_bool_term(c)
    a = _py(a)
    b = _py(b)
    if isinstance(a, (SymBool, bool)) and isinstance(b, (SymBool, bool)):
        return mkbool(z3.If(ct, as_bool_term(a), as_bool_term(b)))
    if isinstance(a, (SymComplex, complex)) or isinstance(b, (SymComplex, complex)):
        pa, pb = SymComplex._parts(a), SymComplex._parts(b)
        return SymComplex(ite(c, pa[0], pb[0]), ite(c, pa[1], pb[1]))
    if _is_intlike(a) and _is_intlike(b):
        return SymInt(z3.If(ct, as_int_term(a), as_int_term(b)))
    return SymReal(z3.If(ct, as_real_term(a), as_real_term(b)))


def smin(a, b):
    a, b = _py(a), _py(b)
    if not is_sym(a) and not is_sym(b):
        return min(a, b)
    return ite(a <= b, a, b)


def smax(a, b):
    a, b = _py(a), _py(b)
    if not is_sym(a) and not is_sym(b):
        return max(a, b)
    return ite(a >= b, a, b)
