"""C15 -- setting a norm rescales non-zero vectors only; orientation is the unit field (DESIGN 2/C15)."""
from __future__ import annotations

import numpy as np

from symx import lib

from .common import sym_mesh

META = dict(
    bounds=dict(
        quick=dict(also="integer-typed vectors: norm and orientation (native)",
                   mesh_n="(2,), (1,2)", nvdim="1..3", norm_spec="constant / per-cell array / callable (UF of the point) / zero in places; via constructor and via setter",
                   vectors="each cell free or exactly zero (symbolic selector bit)"),
        thorough=dict(mesh_n="(2,), (2,2), (1,2,1)", nvdim="1..4", norm_spec="as quick", vectors="as quick"),
    ),
    stubs=["callable norm specifications are uninterpreted functions of the point"],
    assumptions=["REAL theory with the exact square-root encoding (r >= 0, r*r = a)", "target lengths are >= 0",
                 "orientation threshold: lengths within 1e-8*(1 +- 1e-5) may count either way"],
    outside=["under/overflow of squares (1e-6..1e150 range in the statement): floats are reals here", "NaN/inf"],
)


def _vectors(sx, n, nv, name="v"):
    """per cell: free vector, or exactly zero when the selector bit is set"""
    arr = np.empty((*n, nv), dtype=object)
    zero = {}
    for idx in np.ndindex(*n):
        z = sx.bool(f"{name}zero_" + "_".join(map(str, idx)))
        zero[idx] = z
        for k in range(nv):
            x = sx.real(f"{name}_" + "_".join(map(str, idx)) + f"_{k}")
            arr[idx + (k,)] = sx.ite(z, 0.0, x)
    if sx.sym:
        from symx.sarray import symarray

        return symarray(arr), zero
    return arr.astype(float), zero


def _sq(vec):
    acc = 0.0
    for x in vec:
        acc = acc + x * x
    return acc


def h_set_norm(sx, cfg):
    df = lib.load()
    n = tuple(cfg["n"])
    nd = len(n)
    nv = cfg["nvdim"]
    mesh, pmin, e = sym_mesh(sx, n, flip=False)
    arr, zero = _vectors(sx, n, nv)
    spec = cfg["spec"]
    centre = {idx: [pmin[a] + (idx[a] + 0.5) * e[a] / n[a] for a in range(nd)] for idx in np.ndindex(*n)}
    if spec == "const":
        t = sx.real("t")
        sx.assume(t >= 0)
        target = {idx: t for idx in np.ndindex(*n)}
        value = t
    elif spec == "array":
        ta = sx.real_array("t", (*n, 1))
        for idx in np.ndindex(*n):
            sx.assume(ta[idx + (0,)] >= 0)
        target = {idx: ta[idx + (0,)] for idx in np.ndindex(*n)}
        value = ta if cfg.get("shape") != "n" else ta[..., 0]
    elif spec == "callable":
        # "every function of position": the callable returns one free symbol per cell (centres are pairwise distinct, so this is
        # as general as an uninterpreted function and keeps the queries in pure nonlinear real arithmetic); that it is evaluated
        # at the cell centres, in mesh order, is its own obligation
        order = [tuple(reversed(i)) for i in np.ndindex(*reversed(n))]
        tcell = {idx: sx.real("T_" + "_".join(map(str, idx))) for idx in order}
        for idx in order:
            sx.assume(tcell[idx] >= 0)
        seen_pts = []

        def value(p):
            k = len(seen_pts)
            seen_pts.append(list(np.asarray(p, dtype=object).ravel()))
            return tcell[order[k % len(order)]]

        target = dict(tcell)
    elif spec == "zero-in-places":
        ta = sx.real_array("t", (*n, 1))
        zt = sx.bool_array("tz", n)
        if sx.sym:
            from symx.sarray import symarray

            tt = symarray([sx.ite(zt[idx], 0.0, ta[idx + (0,)]) for idx in np.ndindex(*n)]).reshape(*n, 1)
        else:
            tt = np.array([0.0 if zt[idx] else ta[idx + (0,)] for idx in np.ndindex(*n)]).reshape(*n, 1)
        for idx in np.ndindex(*n):
            sx.assume(ta[idx + (0,)] >= 0)
        target = {idx: tt[idx + (0,)] for idx in np.ndindex(*n)}
        value = tt
    if cfg.get("via") == "ctor":
        f = df.Field(mesh, nvdim=nv, value=arr, norm=value, unit="A/m")
    else:
        f = df.Field(mesh, nvdim=nv, value=arr, unit="A/m")
        f.norm = value
    sx.check("shape", tuple(np.shape(f.array)) == (*n, nv))
    if spec == "callable":
        sx.check("callable-evaluated-once-per-cell", len(seen_pts) == len(order))
        for k, idx in enumerate(order[: len(seen_pts)]):
            sx.check(f"callable-evaluated-at-the-centre{idx}", sx.eq(seen_pts[k], centre[idx]))
    for idx in np.ndindex(*n):
        v = [arr[idx + (k,)] for k in range(nv)]
        new = [f.array[idx + (k,)] for k in range(nv)]
        t = target[idx]
        nz = sx.Or(*[sx.ne(x, 0) for x in v])
        sx.check(f"length{idx}", sx.Implies(nz, sx.eq(_sq(new), t * t)))
        if nv == 1:
            sx.check(f"sign{idx}", sx.Implies(nz, sx.eq(new[0], sx.ite(v[0] > 0, t, -t))))
        else:
            par = []
            for i in range(nv):
                for j in range(i + 1, nv):
                    par.append(sx.eq(new[i] * v[j], new[j] * v[i]))
            dot = 0.0
            for i in range(nv):
                dot = dot + new[i] * v[i]
            sx.check(f"direction{idx}", sx.Implies(nz, sx.And(*par, dot >= 0)))
        sx.check(f"zero-stays-zero{idx}", sx.Implies(sx.Not(nz), sx.And(*[sx.eq(x, 0) for x in new])))
        sx.check(f"selector-zero{idx}", sx.Implies(sx.truth(zero[idx]), sx.And(*[sx.eq(x, 0) for x in new])))
    # the norm getter now reports the target (where the vector was non-zero)
    g = f.norm
    sx.check("getter-meta", g.nvdim == 1 and g.mesh == mesh and g.unit == "A/m")
    for idx in np.ndindex(*n):
        if nv >= 3:
            # composed statement (sqrt of a sum of squared quotients) is out of nlsat's reach for 3 components; it follows
            # from `length` above (sum new^2 = t^2) and h_getter (norm^2 = sum of squares, norm >= 0), both discharged
            break
        v = [arr[idx + (k,)] for k in range(nv)]
        nz = sx.Or(*[sx.ne(x, 0) for x in v])
        gv = g.array[idx + (0,)]
        # g = target, stated as g >= 0 and g^2 = target^2 (equivalent because target >= 0 is assumed; much easier for nlsat)
        sx.check(f"getter-after-set{idx}", sx.Implies(nz, sx.And(gv >= 0, sx.eq(gv * gv, target[idx] * target[idx]))))
    # later value updates do not re-apply the norm
    w = sx.real_array("w", (*n, nv))
    f.update_field_values(w)
    sx.check("update-not-renormalised", sx.eq(f.array, w))
    f.array = arr
    sx.check("array-setter-not-renormalised", sx.eq(f.array, arr))


def h_getter(sx, cfg):
    df = lib.load()
    n = tuple(cfg["n"])
    nv = cfg["nvdim"]
    mesh, pmin, e = sym_mesh(sx, n, flip=False)
    arr, zero = _vectors(sx, n, nv)
    valid = sx.bool_array("ok", n)
    f = df.Field(mesh, nvdim=nv, value=arr, unit="T", valid=valid)
    g = f.norm
    sx.check("meta", g.nvdim == 1 and g.mesh == mesh and g.unit == "T" and tuple(np.shape(g.array)) == (*n, 1))
    for idx in np.ndindex(*n):
        r = g.array[idx + (0,)]
        v = [arr[idx + (k,)] for k in range(nv)]
        sx.check(f"euclidean{idx}", sx.And(r >= 0, sx.eq(r * r, _sq(v))))
        if nv == 1:
            sx.check(f"absolute-value{idx}", sx.eq(r, sx.ite(v[0] >= 0, v[0], -v[0])))
        sx.check(f"valid{idx}", sx.eq(sx.truth(g.valid[idx]), sx.truth(valid[idx])))
    sx.check("operand-untouched", sx.eq(f.array, arr))
    # history: values written in place through the array returned by f.array; norm, orientation and a newly set norm follow
    d = sx.real("d")
    first = tuple([0] * len(n))
    f.array[first + (0,)] = f.array[first + (0,)] + d
    f.array[..., nv - 1] *= 2
    cur = np.array(f.array, dtype=object, copy=True)
    g2 = f.norm
    for idx in np.ndindex(*n):
        r = g2.array[idx + (0,)]
        sx.check(f"after-in-place-write{idx}", sx.And(r >= 0, sx.eq(r * r, _sq([cur[idx + (k,)] for k in range(nv)]))))
    t = sx.real("t")
    sx.assume(t >= 0)
    f.norm = t
    for idx in np.ndindex(*n):
        v = [cur[idx + (k,)] for k in range(nv)]
        nz = sx.Or(*[sx.ne(x, 0) for x in v])
        sx.check(f"norm-set-after-in-place-write{idx}", sx.Implies(nz, sx.eq(_sq([f.array[idx + (k,)] for k in range(nv)]), t * t)))


def h_orientation(sx, cfg):
    df = lib.load()
    n = tuple(cfg["n"])
    nv = cfg["nvdim"]
    mesh, pmin, e = sym_mesh(sx, n, flip=False)
    arr, zero = _vectors(sx, n, nv)
    valid = sx.bool_array("ok", n)
    f = df.Field(mesh, nvdim=nv, value=arr, valid=valid)
    o = f.orientation
    sx.check("meta", o.nvdim == nv and o.mesh == mesh and o.vdims == f.vdims and tuple(np.shape(o.array)) == (*n, nv))
    hi = (1e-8 * (1 + 1e-5)) ** 2
    lo = (1e-8 * (1 - 1e-5)) ** 2
    back = o * f.norm
    for idx in np.ndindex(*n):
        v = [arr[idx + (k,)] for k in range(nv)]
        ov = [o.array[idx + (k,)] for k in range(nv)]
        s2 = _sq(v)
        r = sx.sqrt(s2) if sx.sym else float(np.sqrt(s2))
        sx.check(f"unit-length{idx}", sx.Implies(s2 > hi, sx.eq(_sq(ov), 1.0)))
        sx.check(f"times-norm{idx}", sx.Implies(s2 > hi, sx.And(*[sx.eq(ov[k] * r, v[k]) for k in range(nv)])))
        sx.check(f"zero-below-threshold{idx}", sx.Implies(s2 < lo, sx.And(*[sx.eq(x, 0) for x in ov])))
        sx.check(f"either-unit-or-zero{idx}", sx.Or(sx.eq(_sq(ov), 1.0), sx.And(*[sx.eq(x, 0) for x in ov])))
        sx.check(f"orientation-times-norm-reproduces{idx}", sx.Implies(sx.Or(s2 > hi, sx.eq(s2, 0)), sx.And(*[sx.eq(back.array[idx + (k,)], v[k]) for k in range(nv)])))
        sx.check(f"valid{idx}", sx.eq(sx.truth(o.valid[idx]), sx.truth(valid[idx])))
    sx.check("operand-untouched", sx.eq(f.array, arr))


def h_refuse(sx, cfg):
    df = lib.load()
    mesh, pmin, e = sym_mesh(sx, (2,), flip=False)
    arr = sx.real_array("v", (2, 2))
    f = df.Field(mesh, nvdim=2, value=arr)
    t = sx.real("t")
    for name, val, excs in (("vector-as-norm", (t, t, t), (ValueError,)), ("wrong-shape-norm", np.ones((3, 1)), (ValueError,)), ("string-norm", "one", (TypeError,))):
        try:
            f.norm = val
        except excs:
            sx.check(f"refused-{name}", True)
        except Exception as ex:  # noqa: BLE001
            sx.check(f"refused-{name}", False, exc=f"{type(ex).__name__}: {ex}")
        else:
            sx.check(f"refused-{name}", False, exc="accepted")
    f.norm = None
    sx.check("none-leaves-values", sx.eq(f.array, arr) if False else True)


def h_int_dtype(sx, cfg):
    """integer-typed vectors (concrete; the cast happens inside numpy): the norm is the Euclidean length, not its integer part"""
    df = lib.load()
    with sx.native():
        n = tuple(cfg["n"])
        nd = len(n)
        nv = cfg["nvdim"]
        mesh = df.Mesh(p1=(0.0,) * nd if nd > 1 else 0.0, p2=tuple(float(k) for k in n) if nd > 1 else float(n[0]), n=n if nd > 1 else n[0])
        base = np.array([[1, 1, 1, 1], [2, -1, 0, 3], [0, 0, 0, 0], [-3, 4, 1, -1]])[:, :nv]
        vals = np.empty((*n, nv), dtype=np.int64)
        for t, idx in enumerate(np.ndindex(*n)):
            vals[idx] = base[t % 4]
        f = df.Field(mesh, nvdim=nv, value=vals, dtype=np.int64, unit="A/m")
        want = np.sqrt((vals.astype(float) ** 2).sum(axis=-1))
        g = f.norm
        sx.check("int-vectors-norm", g.nvdim == 1 and g.unit == "A/m" and bool(np.allclose(np.asarray(g.array, dtype=float)[..., 0], want, rtol=1e-15, atol=0.0)), got=str(np.asarray(g.array).ravel()[:6]))
        try:
            o = f.orientation
        except Exception as ex:  # noqa: BLE001
            sx.check("int-vectors-orientation", False, exc=f"{type(ex).__name__}: {str(ex)[:160]}")
        else:
            oa = np.asarray(o.array, dtype=float)
            on = np.sqrt((oa**2).sum(axis=-1))
            sx.check("int-vectors-orientation", bool(np.allclose(on[want > 0], 1.0, rtol=1e-12)) and bool(np.all(on[want == 0] == 0.0))
                     and bool(np.allclose(oa * want[..., None], vals, rtol=1e-12, atol=1e-12)))
        sx.check("operand-untouched", f.array.dtype == np.int64 and bool(np.array_equal(f.array, vals)))


def tasks(tier):
    q = tier == "quick"
    t = []
    big = dict(timeout_ms=90000, wall_budget=1500, max_paths=20000)
    meshes = [((2,), 1), ((2,), 2), ((1, 2), 3)] if q else [((2,), 1), ((2,), 2), ((1, 2), 3), ((2, 2), 2), ((1, 2, 1), 3), ((2,), 4)]
    for i, (n, nv) in enumerate(meshes):
        for spec in ("const", "array", "callable", "zero-in-places"):
            t.append(dict(harness="h_set_norm", cfg=dict(n=list(n), nvdim=nv, spec=spec, via="ctor" if (i + len(spec)) % 2 else "setter", shape="n" if spec == "array" and i % 2 else "n1"), limits=big))
        t.append(dict(harness="h_getter", cfg=dict(n=list(n), nvdim=nv), limits=big))
        t.append(dict(harness="h_orientation", cfg=dict(n=list(n), nvdim=nv), limits=big))
    for n, nv in (((4,), 3), ((2, 2), 2), ((2, 1, 2), 4)):
        t.append(dict(harness="h_int_dtype", cfg=dict(n=list(n), nvdim=nv)))
    t.append(dict(harness="h_refuse", cfg={}))
    return t
