#!/usr/bin/env python3
import json, glob, collections, re, sys
prop = sys.argv[1]
c = collections.Counter()
ex = {}
for f in glob.glob(f'/verif/replays/{prop}/*.json'):
    v = json.load(open(f))
    key = (v['harness'], re.sub(r'\d+', '#', v['obligation']))
    c[key] += 1
    ex.setdefault(key, f)
for k, n in c.most_common(int(sys.argv[2]) if len(sys.argv) > 2 else 15):
    print(n, k, ex[k])
print("distinct:", len(c), "total:", sum(c.values()))
