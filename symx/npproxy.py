"""NumpyProxy: bound as the module-global ``np`` of the discretisedfield modules for
the duration of a symbolic run.  Python sequences holding proxies are turned into
SymArray before the real NumPy function is called; allocation / conversion
functions that would need ``float(sym)`` are given models (DESIGN 1.2)."""
from __future__ import annotations

import math
import operator
import types

import numpy as _np

from . import core
from . import sarray as sa
from .core import Unsupported
from .scalars import Sym, SymBool, SymComplex, SymInt, SymReal, _py, is_sym


def _exact_trig(fn, x):
    """cos/sin of a concrete float: exact at multiples of pi/2 (DESIGN 1.1 assumption)"""
    q = x / (math.pi / 2)
    k = round(q)
    if abs(q - k) < 1e-9:
        k %= 4
        if fn == "cos":
            return [1.0, 0.0, -1.0, 0.0][k]
        return [0.0, 1.0, 0.0, -1.0][k]
    return getattr(math, fn)(x)


def _symbolic_mode():
    return core.ctx() is not None


def _shape_tuple(shape):
    if isinstance(shape, (int, _np.integer, SymInt)):
        return (operator.index(shape),)
    return tuple(operator.index(s) for s in shape)


def _obj_full(shape, fill):
    out = _np.empty(_shape_tuple(shape), dtype=object)
    if isinstance(fill, _np.ndarray) or isinstance(fill, (list, tuple)):
        src = sa.plain(sa.symarray(fill))
        out[...] = src
    else:
        f = _py(fill)
        for idx in _np.ndindex(*out.shape):
            out[idx] = f
    return out.view(sa.SymArray)


class NumpyProxy:
    def __init__(self, real=_np, overrides=None, name="numpy"):
        object.__setattr__(self, "_real", real)
        object.__setattr__(self, "_name", name)
        object.__setattr__(self, "_cache", {})

    def __getattr__(self, name):
        cache = self._cache
        if name in cache:
            return cache[name]
        ov = _OVERRIDES.get((self._name, name))
        real = getattr(self._real, name)
        if ov is not None:
            val = ov
        elif isinstance(real, types.ModuleType):
            val = NumpyProxy(real, name=f"{self._name}.{name}") if name in ("linalg",) else real
        elif isinstance(real, type) or not callable(real):
            val = real
        elif isinstance(real, _np.ufunc):
            val = _UfuncProxy(real)
        else:
            val = _generic(real)
        cache[name] = val
        return val

    def __setattr__(self, k, v):
        raise AttributeError("NumpyProxy is read-only")


class _UfuncProxy:
    """callable like the ufunc itself; .reduce/.accumulate/.outer/.at are forwarded the same way"""

    def __init__(self, real):
        self._real = real
        self._call = _generic(real)
        self.__name__ = real.__name__
        self.__wrapped__ = real

    def __call__(self, *a, **k):
        return self._call(*a, **k)

    def __getattr__(self, name):
        v = getattr(self._real, name)
        if callable(v):
            return _generic(v)
        return v


def _generic(real):
    def call(*args, **kwargs):
        if not _symbolic_mode():
            return real(*args, **kwargs)
        args2 = tuple(sa.symify(a) for a in args)
        kwargs2 = {k: sa.symify(v) for k, v in kwargs.items()}
        r = real(*args2, **kwargs2)
        return sa.wrap(r)

    call.__name__ = getattr(real, "__name__", "np_func")
    call.__wrapped__ = real
    return call


# --------------------------------------------------------------------------
def _array(obj, dtype=None, copy=True, **kw):
    if not sa.has_sym(obj) and not isinstance(obj, sa.SymArray):
        return _np.array(obj, dtype=dtype, copy=copy, **kw)
    a = sa.symarray(obj)
    if copy:
        a = a.copy()
    if dtype is not None and sa._kind(dtype) != "O":
        a = sa._astype(a, dtype)
    return a


def _asarray(obj, dtype=None, **kw):
    if isinstance(obj, Sym):
        out = _np.empty((), dtype=object)
        out[()] = obj
        return out.view(sa.SymArray)
    if not sa.has_sym(obj) and not isinstance(obj, sa.SymArray):
        return _np.asarray(obj, dtype=dtype, **kw)
    a = sa.symarray(obj)
    if dtype is not None and sa._kind(dtype) != "O":
        a = sa._astype(a, dtype)
    return a


def _full(shape, fill_value, dtype=None, **kw):
    kind = sa._kind(dtype)
    if sa.has_sym(fill_value) or isinstance(fill_value, sa.SymArray) or (
        _symbolic_mode() and kind in (None, "f", "c", "O")
    ):
        shp = _shape_tuple(shape)
        if isinstance(fill_value, (_np.ndarray, list, tuple)):
            src = sa.plain(sa.symarray(fill_value))
            out = _np.empty(shp, dtype=object)
            out[...] = _np.broadcast_to(src, shp)
            out = out.view(sa.SymArray)
        else:
            out = _obj_full(shp, fill_value)
        if kind in ("i", "b"):
            return sa._astype(out, dtype)
        if kind == "f":
            return sa._astype(out, float)
        return out
    return _np.full(_shape_tuple(shape), fill_value, dtype=dtype, **kw)


def _zeros(shape, dtype=float, **kw):
    if _symbolic_mode() and sa._kind(dtype) in ("f", "c", None):
        return _obj_full(shape, 0.0)
    return _np.zeros(_shape_tuple(shape), dtype=dtype, **kw)


def _ones(shape, dtype=float, **kw):
    if _symbolic_mode() and sa._kind(dtype) in ("f", "c", None):
        return _obj_full(shape, 1.0)
    return _np.ones(_shape_tuple(shape), dtype=dtype, **kw)


def _empty(shape, dtype=float, **kw):
    if _symbolic_mode() and sa._kind(dtype) in ("f", "c", None, "O"):
        return _obj_full(shape, None)
    return _np.empty(_shape_tuple(shape), dtype=dtype, **kw)


def _like(kindfill):
    def f(a, dtype=None, **kw):
        if isinstance(a, sa.SymArray) or sa.has_sym(a):
            a = sa.symarray(a)
            k = sa._kind(dtype)
            if k == "b":
                return _np.full(a.shape, bool(kindfill), dtype=bool)
            if k == "i":
                return _np.full(a.shape, int(kindfill), dtype=int)
            # keep the element kind (bool arrays stay bool-like)
            if dtype is None and a.size and all(isinstance(e, (bool, SymBool)) for e in a.flat):
                return _np.full(a.shape, bool(kindfill), dtype=bool)
            return _obj_full(a.shape, float(kindfill))
        return getattr(_np, "zeros_like" if kindfill == 0 else "ones_like")(a, dtype=dtype, **kw)

    return f


def _trig(fn):
    real = getattr(_np, fn)

    def f(x, *a, **k):
        x0 = _py(x)
        if isinstance(x0, (int, float)) and not a and not k:
            if _symbolic_mode():
                return _exact_trig(fn, float(x0))
            return real(x0)
        if isinstance(x0, Sym):
            return getattr(x0, fn)()
        x = sa.symify(x)
        return sa.wrap(real(x, *a, **k))

    return f


def _unary_method(name):
    real = getattr(_np, name)

    def f(x, *a, **k):
        x0 = _py(x)
        if isinstance(x0, Sym):
            return getattr(x0, name)()
        return sa.wrap(real(sa.symify(x), *a, **k))

    return f


def _floor_like(name, pyf):
    real = getattr(_np, name)

    def f(x, *a, **k):
        x0 = _py(x)
        if isinstance(x0, Sym):
            return getattr(x0, name)()
        return sa.wrap(real(sa.symify(x), *a, **k))

    return f


def _fromiter(it, dtype, count=-1, **kw):
    lst = list(it)
    if sa.has_sym(lst):
        return sa._astype(sa.symarray(lst), dtype)
    return _np.fromiter(lst, dtype, count=count, **kw)


def _isscalar(x):
    return isinstance(x, Sym) or _np.isscalar(x)


def _shape(a):
    if isinstance(a, Sym):
        return ()
    if isinstance(a, (list, tuple)) and sa.has_sym(a):
        return sa.symarray(a).shape
    return _np.shape(a)


def _ndim(a):
    return len(_shape(a))


def _size(a, axis=None):
    if isinstance(a, Sym):
        return 1
    return _np.size(sa.plain(sa.symify(a)), axis)


def _wrapf(f):
    def g(*args, **kw):
        return f(*args, **kw)

    return g


def _dispatch(name):
    """functions modelled in sarray._FUNCS: make them reachable for list inputs too"""
    real = getattr(_np, name)
    model = sa._FUNCS[real]

    def f(*args, **kw):
        if any(sa.has_sym(a) or isinstance(a, sa.SymArray) for a in args) or any(
            sa.has_sym(v) or isinstance(v, sa.SymArray) for v in kw.values()
        ):
            return model(*args, **kw)
        return real(*args, **kw)

    return f


def _linalg_norm(x, *a, **k):
    if sa.has_sym(x) or isinstance(x, sa.SymArray):
        return sa._norm(x, *a, **k)
    return _np.linalg.norm(x, *a, **k)


def _linspace(start, stop, num=50, **kw):
    if sa.has_sym([start, stop]) or isinstance(num, SymInt):
        return sa._linspace(start, stop, num, **kw)
    return _np.linspace(start, stop, num, **kw)


def _sqrt(x, *a, **k):
    x0 = _py(x)
    if isinstance(x0, Sym):
        return x0.sqrt()
    return sa.wrap(_np.sqrt(sa.symify(x), *a, **k))


def _minmax(name):
    real = getattr(_np, name)
    f2 = sa.smin if name in ("minimum", "fmin") else sa.smax

    def f(a, b, *args, **kw):
        if isinstance(_py(a), Sym) or isinstance(_py(b), Sym):
            if not isinstance(a, _np.ndarray) and not isinstance(b, _np.ndarray) and not isinstance(a, (list, tuple)) and not isinstance(b, (list, tuple)):
                return f2(a, b)
        return sa.wrap(real(sa.symify(a), sa.symify(b), *args, **kw))

    return f


_OVERRIDES = {
    ("numpy", "array"): _array,
    ("numpy", "asarray"): _asarray,
    ("numpy", "asanyarray"): _asarray,
    ("numpy", "full"): _full,
    ("numpy", "zeros"): _zeros,
    ("numpy", "ones"): _ones,
    ("numpy", "empty"): _empty,
    ("numpy", "zeros_like"): _like(0),
    ("numpy", "ones_like"): _like(1),
    ("numpy", "cos"): _trig("cos"),
    ("numpy", "sin"): _trig("sin"),
    ("numpy", "sqrt"): _sqrt,
    ("numpy", "fromiter"): _fromiter,
    ("numpy", "isscalar"): _isscalar,
    ("numpy", "shape"): _shape,
    ("numpy", "ndim"): _ndim,
    ("numpy", "size"): _size,
    ("numpy", "linspace"): _linspace,
    ("numpy", "minimum"): _minmax("minimum"),
    ("numpy", "maximum"): _minmax("maximum"),
    ("numpy.linalg", "norm"): _linalg_norm,
}
for _n in (
    "isclose allclose array_equal gradient where round around clip real imag angle mean nonzero argwhere "
    "isreal iscomplexobj sum cumsum prod any all max amax min amin convolve"
).split():
    _OVERRIDES[("numpy", _n)] = _dispatch(_n)
for _n in "arccos arcsin arctan arcsinh exp log log10 degrees radians rad2deg deg2rad tan floor ceil rint trunc".split():
    _OVERRIDES[("numpy", _n)] = _unary_method(_n)


NP = NumpyProxy()
