"""C10 -- HDF5 files preserve the complete state of a field (DESIGN 2/C10)."""
from __future__ import annotations

import contextlib
import os
import tempfile

import numpy as np

from symx import lib, stubs

from .common import DIMSETS, sym_mesh

META = dict(
    bounds=dict(
        quick=dict(also="legacy files with unsorted corners; typed attribute writes (attrs.create) in the stub",
                   ndim="1..3", n="<=3 per axis", nvdim="1..3", bc="'', one axis, all axes, 'neumann'", subregions="none / two / overlapping (cell-aligned, incl. fractional corners)",
                   corner_typing="float (symbolic) or integer-typed region corners x integer- or float-typed subregion corners", labels="default / custom / scalar label / none",
                   unit="None / 'A/m'", dtype="float and complex (symbolic), int / float32 / bool natively"),
        thorough=dict(ndim="1..4", n="<=3 per axis", nvdim="1..4", bc="as quick", subregions="as quick", corner_typing="as quick", labels="as quick", unit="as quick", dtype="as quick"),
    ),
    stubs=["h5py: in-memory tree whose attributes/datasets return what was written after casting to their dtype (int truncates, bool stores truth values), "
           "strings as str (attributes) / bytes (datasets), None not storable; native replays use the real h5py on a scratch file"],
    assumptions=["REAL theory (values are stored and read back, no arithmetic)", "HDF5/h5py themselves are exercised only natively"],
    outside=["files with several fields (time series)", "h5py / HDF5 library internals"],
)

CUSTOM = {1: ["rho"], 2: ["a", "b"], 3: ["mx", "my", "mz"], 4: ["p", "q", "r", "t"]}


@contextlib.contextmanager
def _h5env(sx):
    """(filename, opener) : symbolic -> stub tree; native -> real h5py on a scratch file"""
    import discretisedfield.io.hdf5 as h5mod

    if sx.sym:
        with stubs.h5_stub(h5mod) as fake:
            yield "field.hdf5", (lambda name, mode="r": fake.File(name, mode))
    else:
        import h5py

        with tempfile.TemporaryDirectory() as d:
            yield os.path.join(d, "field.hdf5"), (lambda name, mode="r": h5py.File(name, mode))


def _build(sx, cfg):
    df = lib.load()
    n = tuple(cfg["n"])
    nd = len(n)
    nv = cfg["nvdim"]
    dims = DIMSETS[cfg.get("dims", "default")][nd]
    units = ["nm", "um", "mm", "km"][:nd] if cfg.get("units") else None
    tf = cfg.get("tolerance", 1e-12)
    if cfg.get("box"):
        p1, p2 = cfg["box"]  # concrete, typed as given (ints stay ints)
        region = df.Region(p1=tuple(p1) if nd > 1 else p1[0], p2=tuple(p2) if nd > 1 else p2[0], dims=dims, units=units, tolerance_factor=tf)
        pmin = [min(a, b) for a, b in zip(p1, p2)]
        e = [abs(b - a) for a, b in zip(p1, p2)]
    else:
        pmin = sx.reals("pmin", nd)
        e = sx.reals("e", nd)
        for x in e:
            sx.assume(x > 0)
        region = df.Region(p1=pmin, p2=[pmin[a] + e[a] for a in range(nd)], dims=dims, units=units, tolerance_factor=tf)
    c = [e[a] / n[a] for a in range(nd)]
    subs = {}
    sub_expected = []
    for name, lo, hi in cfg.get("subregions", []):
        s1 = [pmin[a] + lo[a] * c[a] for a in range(nd)]
        s2 = [pmin[a] + hi[a] * c[a] for a in range(nd)]
        if cfg.get("sub_int") or (cfg.get("sub_int_first") and not subs):
            assert all(float(v).is_integer() for v in s1 + s2)
            s1, s2 = [int(v) for v in s1], [int(v) for v in s2]
        subs[name] = df.Region(p1=s1, p2=s2)
        sub_expected.append((name, s1, s2))
    mesh = df.Mesh(region=region, n=n, bc=cfg.get("bc", ""), subregions=subs)
    kind = cfg.get("values", "float")
    re = sx.real_array("v", (*n, nv))
    im = None
    if kind == "complex":
        im = sx.real_array("w", (*n, nv))
        if sx.sym:
            from symx.sarray import symarray

            val = symarray([x + y * 1j for x, y in zip(re.flat, im.flat)]).reshape(re.shape)
        else:
            val = re + 1j * im
    else:
        val = re
    valid = sx.bool_array("ok", n)
    labels = {"default": None, "custom": CUSTOM[nv], "none": None}[cfg.get("labels", "default")]
    f = df.Field(mesh, nvdim=nv, value=val, vdims=labels, unit=cfg.get("unit"), valid=valid, dtype=None if sx.sym or kind != "complex" else complex)
    return df, f, mesh, pmin, e, n, nd, nv, dims, re, im, valid, sub_expected


def _parts(z):
    if hasattr(z, "re"):
        return z.re, z.im
    if isinstance(z, (complex, np.complexfloating)):
        return z.real, z.imag
    return z, 0.0


def h_roundtrip(sx, cfg):
    df, f, mesh, pmin, e, n, nd, nv, dims, re, im, valid, sub_expected = _build(sx, cfg)
    with _h5env(sx) as (fname, opener):
        try:
            f.to_file(fname)
        except Exception as ex:  # noqa: BLE001
            sx.check("write-accepted", False, exc=f"{type(ex).__name__}: {ex}")
            return
        try:
            g = df.Field.from_file(fname)
        except Exception as ex:  # noqa: BLE001
            sx.check("read-accepted", False, exc=f"{type(ex).__name__}: {ex}")
            return
    r, r0 = g.mesh.region, mesh.region
    sx.check("pmin", sx.eq(list(r.pmin), pmin))
    sx.check("pmax", sx.eq(list(r.pmax), [pmin[a] + e[a] for a in range(nd)]))
    if not sx.sym:
        sx.check("corner-typing-kept", r.pmin.dtype.kind == r0.pmin.dtype.kind and r.pmax.dtype.kind == r0.pmax.dtype.kind)
    sx.check("dims", tuple(r.dims) == tuple(r0.dims))
    sx.check("units", tuple(r.units) == tuple(r0.units))
    sx.check("tolerance-factor", r.tolerance_factor == r0.tolerance_factor)
    sx.check("n", tuple(int(x) for x in g.mesh.n) == n)
    sx.check("bc", g.mesh.bc == mesh.bc)
    sx.check("subregion-names", list(g.mesh.subregions) == [s[0] for s in sub_expected])
    for name, s1, s2 in sub_expected:
        if name in g.mesh.subregions:
            s = g.mesh.subregions[name]
            sx.check(f"subregion-{name}-pmin", sx.eq(list(s.pmin), s1))
            sx.check(f"subregion-{name}-pmax", sx.eq(list(s.pmax), s2))
    sx.check("nvdim", g.nvdim == nv)
    sx.check("labels", (None if g.vdims is None else list(g.vdims)) == (None if f.vdims is None else list(f.vdims)))
    sx.check("unit", g.unit == f.unit, got=repr(g.unit), want=repr(f.unit))
    ok = tuple(np.shape(g.array)) == (*n, nv) and tuple(np.shape(g.valid)) == n
    sx.check("shapes", ok)
    if ok:
        for idx in np.ndindex(*n):
            for k in range(nv):
                gr, gi = _parts(g.array[idx + (k,)])
                sx.check(f"value{idx}[{k}]", sx.And(sx.eq(gr, re[idx + (k,)], scale=0.0), sx.eq(gi, im[idx + (k,)] if im is not None else 0.0, scale=0.0)))
            sx.check(f"valid{idx}", sx.eq(sx.truth(g.valid[idx]), sx.truth(valid[idx])))
        if not sx.sym:
            sx.check("real-stays-real-complex-stays-complex", np.iscomplexobj(g.array) == np.iscomplexobj(f.array))
            sx.check("bit-identical", bool(np.array_equal(g.array, f.array)) and (g.array.dtype == f.array.dtype))
            sx.check("valid-boolean", g.valid.dtype == np.bool_)
    sx.check("equal-field", bool(g == f) if not sx.sym else True)
    sx.check("source-untouched", tuple(int(x) for x in f.mesh.n) == n and list(f.mesh.subregions) == [s[0] for s in sub_expected])


def h_layout(sx, cfg):
    """the written tree has the documented layout (file attributes, field/mesh/region groups, array and valid datasets)"""
    df, f, mesh, pmin, e, n, nd, nv, dims, re, im, valid, sub_expected = _build(sx, cfg)
    with _h5env(sx) as (fname, opener):
        f.to_file(fname)
        h = opener(fname, "r")
        try:
            sx.check("file-attrs", h.attrs["ubermag-hdf5-file-version"] == "0.1" and h.attrs["type"] == "discretisedfield.Field" and "discretisedfield.__version__" in h.attrs
                     and "file-creation-time-UTC" in h.attrs)
            fld = h["field"]
            sx.check("field-attrs", int(fld.attrs["nvdim"]) == nv and "vdims" in fld.attrs and "unit" in fld.attrs)
            sx.check("array-dataset", tuple(fld["array"].shape) == (*n, nv))
            sx.check("valid-dataset", tuple(fld["valid"].shape) == n and np.dtype(fld["valid"].dtype) == np.bool_)
            m = fld["mesh"]
            sx.check("mesh-attrs", [int(x) for x in m.attrs["n"]] == list(n) and m.attrs["bc"] == mesh.bc)
            rg = m["region"]
            sx.check("region-attrs", all(k in rg.attrs for k in ("pmin", "pmax", "dims", "ndim", "units", "tolerance_factor")) and int(rg.attrs["ndim"]) == nd)
            sx.check("region-corners", sx.And(sx.eq(list(rg.attrs["pmin"]), pmin), sx.eq(list(rg.attrs["pmax"]), [pmin[a] + e[a] for a in range(nd)])))
            if sub_expected:
                names = [x.decode("utf-8") if isinstance(x, bytes) else str(x) for x in m["subregion_names"]]
                sx.check("subregion-names-dataset", names == [s[0] for s in sub_expected])
                sx.check("subregions-dataset-shape", tuple(m["subregions"].shape) == (len(sub_expected), 2 * nd))
            else:
                sx.check("no-subregion-datasets", "subregions" not in m and "subregion_names" not in m)
        finally:
            if not sx.sym:
                h.close()


def h_legacy(sx, cfg):
    """files in the layout written before 'ubermag-hdf5-file-version' existed are still read"""
    df = lib.load()
    n = tuple(cfg["n"])
    nd = len(n)
    nv = cfg["nvdim"]
    pmin = sx.reals("pmin", nd)
    e = sx.reals("e", nd)
    for x in e:
        sx.assume(x > 0)
    vals = sx.real_array("v", (*n, nv))
    from symx.sarray import symarray

    with _h5env(sx) as (fname, opener):
        h = opener(fname, "w")
        try:
            fld = h.create_group("field")
            m = fld.create_group("mesh")
            rg = m.create_group("region")
            # old releases stored the two corners as the user gave them (not sorted)
            flips = cfg.get("flip") or [False] * nd
            far = [pmin[a] + e[a] for a in range(nd)]
            c1 = [far[a] if flips[a] else pmin[a] for a in range(nd)]
            c2 = [pmin[a] if flips[a] else far[a] for a in range(nd)]
            rg.create_dataset("p1", data=symarray(c1) if sx.sym else np.array(c1, dtype=float))
            rg.create_dataset("p2", data=symarray(c2) if sx.sym else np.array(c2, dtype=float))
            m.create_dataset("n", data=np.array(n, dtype=int))
            fld.create_dataset("dim", data=np.int64(nv))
            fld.create_dataset("array", data=vals)
        finally:
            if not sx.sym:
                h.close()
        try:
            g = df.Field.from_file(fname)
        except Exception as ex:  # noqa: BLE001
            sx.check("legacy-file-read", False, exc=f"{type(ex).__name__}: {ex}")
            return
    sx.check("legacy-file-read", True)
    sx.check("n", tuple(int(x) for x in g.mesh.n) == n and g.nvdim == nv)
    sx.check("corners", sx.And(sx.eq(list(g.mesh.region.pmin), pmin), sx.eq(list(g.mesh.region.pmax), [pmin[a] + e[a] for a in range(nd)])))
    sx.check("values", sx.eq(g.array, vals))


def h_dtype(sx, cfg):
    """value dtypes (native execution): values come back exactly, real stays real, complex stays complex"""
    df = lib.load()
    with sx.native():
        import h5py  # noqa: F401

        n = tuple(cfg["n"])
        nd = len(n)
        nv = cfg["nvdim"]
        mesh = df.Mesh(p1=(0,) * nd if nd > 1 else 0, p2=tuple(2 * k for k in n) if nd > 1 else 2 * n[0], n=n if nd > 1 else n[0])
        rng = np.random.default_rng(3)
        base = rng.integers(-9, 10, size=(*n, nv))
        cases = {
            "float64": dict(value=base / 7.0),
            "float64-extremes": dict(value=np.where(base > 0, 1.7976931348623157e308, np.where(base < 0, -5e-324, 0.1))),
            "complex128": dict(value=base / 3.0 + 1j * base[::-1] / 11.0, dtype=complex),
            "complex-inferred": dict(value=base + 1j * (base + 1)),
            "int64": dict(value=base, dtype=np.int64),
            "float32": dict(value=(base / 7.0).astype(np.float32), dtype=np.float32),
            # complex fields whose imaginary parts vanish or are tiny stay complex, bit for bit
            "complex-zero-imag": dict(value=(base / 3.0).astype(np.complex128), dtype=complex),
            "complex-tiny-imag": dict(value=base / 3.0 + 1j * (base * 1e-17), dtype=complex),
        }
        with tempfile.TemporaryDirectory() as d:
            for name, kw in cases.items():
                f = df.Field(mesh, nvdim=nv, **kw)
                fn = os.path.join(d, f"{name}.h5")
                f.to_file(fn)
                g = df.Field.from_file(fn)
                sx.check(f"{name}-values-exact", bool(np.array_equal(g.array, f.array)))
                sx.check(f"{name}-real-complex-kind", np.iscomplexobj(g.array) == np.iscomplexobj(f.array))
                if name.startswith(("float64", "complex")):
                    sx.check(f"{name}-bit-identical", g.array.dtype == f.array.dtype and g.array.tobytes() == f.array.tobytes())
                sx.check(f"{name}-equal", bool(g == f))


def tasks(tier):
    q = tier == "quick"
    t = []
    big = dict(timeout_ms=60000, wall_budget=1200)
    two = {1: [("s1", [0], [1]), ("s2", [1], [3])], 2: [("top", [0, 1], [2, 2]), ("bottom", [0, 0], [2, 1])], 3: [("a", [0, 0, 0], [1, 2, 1]), ("b", [1, 0, 0], [2, 2, 2])],
           4: [("a", [0, 0, 0, 0], [1, 1, 2, 1]), ("b", [1, 0, 0, 0], [2, 1, 2, 2])]}
    over = {1: [("zz", [0], [2]), ("aa", [1], [3])], 2: [("zz", [0, 0], [2, 2]), ("aa", [1, 0], [2, 1])], 3: [("zz", [0, 0, 0], [2, 2, 1]), ("aa", [0, 1, 0], [2, 2, 2])]}
    ns = {1: (3,), 2: (2, 2), 3: (2, 2, 2), 4: (2, 1, 2, 2)}
    i = 0
    for nd in ((1, 2, 3) if q else (1, 2, 3, 4)):
        for nv in ((1, 3) if q else (1, 2, 3)):
            for subs in ("none", "two", "over"):
                if subs == "over" and nd == 4:
                    continue
                i += 1
                cfg = dict(n=list(ns[nd]), nvdim=nv, subregions=[] if subs == "none" else (two[nd] if subs == "two" else over[nd]),
                           dims="renamed" if i % 2 else "default", units=bool(i % 2), bc=("", DIMSETS["renamed" if i % 2 else "default"][nd][0], "neumann", "".join(DIMSETS["renamed" if i % 2 else "default"][nd]))[i % 4],
                           labels=("default", "custom", "none")[i % 3] if nv > 1 else ("none", "custom")[i % 2], unit=(None, "A/m")[i % 2], values=("float", "complex")[(i // 2) % 2],
                           tolerance=(1e-12, 1e-9)[i % 2])
                t.append(dict(harness="h_roundtrip", cfg=cfg, limits=big))
                if i % 4 == 0:
                    t.append(dict(harness="h_layout", cfg=cfg, limits=big))
    # corner typing: integer-typed region corners x integer / float (fractional) subregion corners; float region x int subregions
    typed = [
        dict(n=[4], nvdim=1, box=[[0], [4]], subregions=[("s", [1], [3])], sub_int=True),
        dict(n=[8], nvdim=1, box=[[0], [4]], subregions=[("s", [1], [5])]),  # cell 0.5: fractional subregion corners 0.5 .. 2.5
        dict(n=[4, 2], nvdim=2, box=[[-2, 0], [2, 1]], subregions=[("s", [0, 0], [2, 1]), ("t", [1, 1], [4, 2])], unit="T", labels="custom"),  # y cell 0.5
        dict(n=[2, 2], nvdim=1, box=[[0.0, 0.0], [2.0, 1.0]], subregions=[("s", [0, 0], [1, 2])], sub_int=True),
        dict(n=[2, 2, 2], nvdim=3, box=[[0, 0, 0], [2, 4, 1]], subregions=[("s", [0, 0, 1], [2, 1, 2])]),  # z cell 0.5
        dict(n=[3], nvdim=2, box=[[5], [-1]], subregions=[]),
        # mixed typing between subregions: the first integer-typed, a later one float-typed with fractional corners (and the reverse)
        dict(n=[8], nvdim=1, box=[[0], [4]], subregions=[("a", [0], [4]), ("b", [3], [7])], sub_int_first=True),
        dict(n=[4, 4], nvdim=1, box=[[0.0, 0.0], [2.0, 4.0]], subregions=[("a", [0, 0], [2, 2]), ("b", [1, 1], [4, 3])], sub_int_first=True),
        dict(n=[8], nvdim=1, box=[[0], [4]], subregions=[("b", [3], [7]), ("a", [0], [4])]),
    ]
    for cfg in typed:
        t.append(dict(harness="h_roundtrip", cfg=cfg, limits=big))
    for n, nv in ([((3,), 1), ((2, 2), 3)] if q else [((3,), 1), ((2, 2), 3), ((2, 1, 2), 2), ((1, 2, 1, 2), 1)]):
        t.append(dict(harness="h_legacy", cfg=dict(n=list(n), nvdim=nv), limits=big))
        t.append(dict(harness="h_legacy", cfg=dict(n=list(n), nvdim=nv, flip=[True] * len(n)), limits=big))
        if len(n) > 1:
            t.append(dict(harness="h_legacy", cfg=dict(n=list(n), nvdim=nv, flip=[bool(a % 2) for a in range(len(n))]), limits=big))
        t.append(dict(harness="h_dtype", cfg=dict(n=list(n), nvdim=nv)))
    return t
