"""C20 -- matplotlib plots draw the field's own numbers at their physical coordinates (DESIGN 2/C20)."""
from __future__ import annotations

import itertools
import math

import numpy as np

from symx import lib

META = dict(
    bounds=dict(
        quick=dict(also="explicit multipliers far from the natural one on a sample with corners off the nanometre grid; option dictionaries reused across plots after in-place mask edits; 2-component lightness",
                   mesh_n="(2,3), (3,2)", geometry="concrete: nm, um, m, km scale, with offsets", nvdim="1..3", mapping="every pairing of components with the two axes, partial mappings, explicit labels",
                   multiplier="default and explicit", filters="validity (symbolic bits), explicit filter field with symbolic values (same / coarser mesh)", plots="scalar, vector, contour, mpl(); lightness natively"),
        thorough=dict(mesh_n="(2,3), (3,2), (4,2)", geometry="as quick", nvdim="1..3", mapping="as quick", multiplier="as quick", filters="as quick", plots="as quick"),
    ),
    stubs=["matplotlib Axes: a recorder passed as ax= (imshow / quiver / contour / set_xlabel / set_ylabel / set_aspect store their arguments); colour bars switched off",
           "native replays of the lightness plot use the real matplotlib (Agg)"],
    assumptions=["REAL theory for the values handed over", "geometry concrete (the SI multiplier is found through log10 of the edge lengths)"],
    outside=["what matplotlib renders", "colour maps, colour bars, colour wheel", "HLS conversion of the lightness plot (structure only, natively)"],
)

PREFIX = {1e-12: "p", 1e-9: "n", 1e-6: "u", 1e-3: "m", 1: "", 1e3: "k", 1e6: "M"}
GEOS = {
    "nm": dict(p1=[0.0, -3e-9], p2=[6e-9, 6e-9], mult=1e-9),
    "um": dict(p1=[2e-6, 1e-6], p2=[8e-6, 4e-6], mult=1e-6),
    "m": dict(p1=[-1.0, 0.5], p2=[3.0, 2.0], mult=1),
    "km": dict(p1=[0.0, 0.0], p2=[4e3, 9e3], mult=1e3),
    "nmodd": dict(p1=[2.5e-10, -1.25e-9], p2=[6.25e-9, 4.75e-9], mult=1e-9),  # corners that are not whole nanometres
    "mixed": dict(p1=[0.0, 0.0], p2=[600e-9, 30e-9], mult=1e-9),  # 0.6 um x 30 nm: the larger of the two axis multipliers... see below
}


class RecorderAxes:
    def __init__(self):
        self.calls = []

    def _rec(self, name):
        def f(*args, **kw):
            self.calls.append((name, args, kw))
            return object()

        return f

    def __getattr__(self, name):
        if name.startswith("__"):
            raise AttributeError(name)
        return self._rec(name)

    def get(self, name):
        return [c for c in self.calls if c[0] == name]


def _isnan(x):
    return isinstance(x, (float, np.floating)) and x != x


def _field(sx, df, cfg, nv, labels=None, mapping=None):
    n = tuple(cfg["n"])
    g = GEOS[cfg.get("geo", "nm")]
    dims = ("x", "y") if cfg.get("dims", "default") == "default" else ("u", "w")
    region = df.Region(p1=tuple(g["p1"]), p2=tuple(g["p2"]), dims=dims, units=cfg.get("units"))
    mesh = df.Mesh(region=region, n=n)
    arr = sx.real_array("v", (*n, nv))
    valid = sx.bool_array("ok", n)
    f = df.Field(mesh, nvdim=nv, value=arr, valid=valid, vdims=labels, vdim_mapping=mapping)
    pmin = [min(a, b) for a, b in zip(g["p1"], g["p2"])]
    pmax = [max(a, b) for a, b in zip(g["p1"], g["p2"])]
    return f, mesh, arr, valid, n, dims, pmin, pmax, g


def _expected_multiplier(pmin, pmax):
    def one(v):
        if v == 0:
            return 1
        e3 = 3 * math.floor(math.log10(abs(v)) / 3)
        return 10.0 ** e3 if e3 != 0 else 1

    return max(one(pmax[0] - pmin[0]), one(pmax[1] - pmin[1]))


def _close(a, b):
    return abs(a - b) <= 1e-12 * (abs(a) + abs(b)) + 1e-300


def _check_geometry(sx, rec, kind, mesh, dims, pmin, pmax, mult, n):
    prefix = PREFIX[mult]
    xl, yl = rec.get("set_xlabel"), rec.get("set_ylabel")
    sx.check("axis-labels", bool(xl) and bool(yl) and xl[-1][1][0] == f"{dims[0]} ({prefix}{mesh.region.units[0]})" and yl[-1][1][0] == f"{dims[1]} ({prefix}{mesh.region.units[1]})",
             got=str((xl[-1][1] if xl else None, yl[-1][1] if yl else None)))
    if kind == "imshow":
        call = rec.get("imshow")[-1]
        ext = list(call[2].get("extent"))
        want = [pmin[0] / mult, pmax[0] / mult, pmin[1] / mult, pmax[1] / mult]
        sx.check("extent-spans-region", len(ext) == 4 and all(_close(float(a), b) for a, b in zip(ext, want)), got=str(ext))
        sx.check("origin-lower", call[2].get("origin") == "lower")
    else:
        call = rec.get(kind)[-1]
        px, py = list(call[1][0]), list(call[1][1])
        cx = [(pmin[0] + (i + 0.5) * (pmax[0] - pmin[0]) / n[0]) / mult for i in range(n[0])]
        cy = [(pmin[1] + (j + 0.5) * (pmax[1] - pmin[1]) / n[1]) / mult for j in range(n[1])]
        sx.check("positions-are-cell-centres", len(px) == n[0] and len(py) == n[1] and all(_close(float(a), b) for a, b in zip(px, cx)) and all(_close(float(a), b) for a, b in zip(py, cy)))


def _check_image(sx, tag, A, n, value_of, drawn_of):
    """A[row j][col i] == value(i,j) where drawn, NaN elsewhere"""
    A = np.asarray(A, dtype=object)
    ok = A.shape[:2] == (n[1], n[0])
    sx.check(f"{tag}-shape-rows-are-y", ok)
    if not ok:
        return
    for i in range(n[0]):
        for j in range(n[1]):
            drawn = drawn_of((i, j))
            if sx.decide(drawn):
                sx.check(f"{tag}[{i},{j}]", sx.eq(A[j, i], value_of((i, j)), scale=0.0) if not _isnan(A[j, i]) else False)
            else:
                sx.check(f"{tag}-not-drawn[{i},{j}]", _isnan(A[j, i]))


def _untouched(sx, f, arr, valid, mesh, n):
    sx.check("field-values-untouched", sx.eq(f.array, arr, scale=0.0))
    sx.check("field-validity-untouched", sx.And(*[sx.eq(sx.truth(f.valid[idx]), sx.truth(valid[idx])) for idx in np.ndindex(*n)]))
    sx.check("mesh-untouched", f.mesh is mesh and tuple(int(x) for x in mesh.n) == n)


def _filter(sx, df, cfg, mesh, n):
    """returns (filter_field or None, drawn(idx) -> condition contribution)"""
    kind = cfg.get("filter", "valid")
    if kind == "valid":
        return None, (lambda idx: True)
    if kind == "same":
        fa = sx.real_array("flt", (*n, 1))
        ff = df.Field(mesh, nvdim=1, value=fa)
        return ff, (lambda idx: sx.ne(fa[idx + (0,)], 0))
    if kind == "coarse":
        cn = (1, n[1])
        cm = df.Mesh(region=mesh.region, n=cn)
        fa = sx.real_array("flt", (*cn, 1))
        ff = df.Field(cm, nvdim=1, value=fa)
        return ff, (lambda idx: sx.ne(fa[(0, idx[1], 0)], 0))
    raise ValueError(kind)


def h_scalar(sx, cfg):
    df = lib.load()
    f, mesh, arr, valid, n, dims, pmin, pmax, g = _field(sx, df, cfg, 1)
    ff, fdrawn = _filter(sx, df, cfg, mesh, n)
    mult = cfg.get("multiplier") or _expected_multiplier(pmin, pmax)
    rec = RecorderAxes()
    kind = cfg["plot"]
    kw = dict(ax=rec, colorbar=False)
    if cfg.get("multiplier"):
        kw["multiplier"] = cfg["multiplier"]
    if ff is not None:
        kw["filter_field"] = ff
    try:
        if kind == "scalar":
            f.mpl.scalar(**kw)
        elif kind == "contour":
            f.mpl.contour(**kw)
        else:
            kw.pop("colorbar")
            if ff is not None:
                kw["scalar_kw"] = dict(filter_field=kw.pop("filter_field"), colorbar=False)
            else:
                kw["scalar_kw"] = dict(colorbar=False)
            f.mpl(**kw)
    except Exception as ex:  # noqa: BLE001
        sx.check("plot-accepted", False, exc=f"{type(ex).__name__}: {ex}")
        return
    fn = "contour" if kind == "contour" else "imshow"
    calls = rec.get(fn)
    sx.check("one-draw-call", len(calls) == 1)
    if len(calls) != 1:
        return
    A = calls[0][1][2] if kind == "contour" else calls[0][1][0]
    # with an explicit filter field the validity mask is replaced by it (documented: filter_field defaults to the validity)
    drawn = (lambda idx: sx.truth(valid[idx])) if ff is None else fdrawn
    _check_image(sx, "pixel", A, n, lambda idx: arr[idx + (0,)], drawn)
    _check_geometry(sx, rec, fn, mesh, dims, pmin, pmax, mult, n)
    _untouched(sx, f, arr, valid, mesh, n)
    if ff is None:
        # history: the validity mask is edited in place after the first plot; the next plot (same option dictionaries) follows the current mask
        first = (0, 0)
        now = not sx.decide(sx.truth(valid[first]))
        f.valid[first] = now
        rec2 = RecorderAxes()
        kw["ax"] = rec2
        (f.mpl.scalar if kind == "scalar" else f.mpl.contour if kind == "contour" else f.mpl)(**kw)
        A2 = rec2.get(fn)[0][1][2] if kind == "contour" else rec2.get(fn)[0][1][0]
        _check_image(sx, "pixel-after-in-place-mask-edit", A2, n, lambda idx: arr[idx + (0,)], lambda idx: now if idx == first else sx.truth(valid[idx]))
    if ff is not None:
        sx.check("filter-field-untouched", tuple(np.shape(ff.array))[-1] == 1)


def h_vector(sx, cfg):
    df = lib.load()
    nv = cfg["nvdim"]
    labels = cfg.get("labels")
    dims = ("x", "y") if cfg.get("dims", "default") == "default" else ("u", "w")
    names = labels or ["x", "y", "z"][:nv]
    pairing = cfg.get("pairing")  # component index for axis 0 and axis 1 (None: not mapped)
    mapping = None
    if pairing is not None:
        mapping = {nm: None for nm in names}  # every label needs an entry; unmapped components point to None
        for ax, comp in enumerate(pairing):
            if comp is not None:
                mapping[names[comp]] = dims[ax]
    f, mesh, arr, valid, n, dims, pmin, pmax, g = _field(sx, df, cfg, nv, labels=labels, mapping=mapping)
    eff = pairing if pairing is not None else ([0, 1] if nv == 2 else [None, None])
    if pairing is None and nv == 2:
        eff = [0, 1]
    explicit = cfg.get("vdims")  # explicit labels for the two arrow components (indices)
    if explicit is not None:
        eff = explicit
    mult = cfg.get("multiplier") or _expected_multiplier(pmin, pmax)
    rec = RecorderAxes()
    kw = dict(ax=rec, colorbar=False, use_color=bool(cfg.get("color")))
    if explicit is not None:
        kw["vdims"] = [None if c is None else names[c] for c in explicit]
    if cfg.get("multiplier"):
        kw["multiplier"] = cfg["multiplier"]
    color_expected = None
    if cfg.get("color") == "third" and nv == 3:
        third = [c for c in range(3) if c not in eff][0]
        color_expected = lambda idx: arr[idx + (third,)]  # noqa: E731
    elif cfg.get("color") == "field":
        cn = (n[0], 1)
        cm = df.Mesh(region=mesh.region, n=cn)
        ca = sx.real_array("col", (*cn, 1))
        kw["color_field"] = df.Field(cm, nvdim=1, value=ca)
        color_expected = lambda idx: ca[(idx[0], 0, 0)]  # noqa: E731
    elif cfg.get("color") == "field-same-count":
        # another grid with the same number of cells: (n0*n1, 1) -- no plotted centre lies on one of its faces
        tot = n[0] * n[1]
        cn = (tot, 1)
        cm = df.Mesh(region=mesh.region, n=cn)
        ca = sx.real_array("col", (*cn, 1))
        kw["color_field"] = df.Field(cm, nvdim=1, value=ca)
        kw["use_color"] = True
        color_expected = lambda idx: ca[(int(((idx[0] + 0.5) / n[0]) * tot), 0, 0)]  # noqa: E731
    try:
        if cfg.get("via_call"):
            kw2 = dict(ax=rec, vector_kw={k: v for k, v in kw.items() if k not in ("ax", "multiplier")}, scalar_kw=dict(colorbar=False))
            if cfg.get("multiplier"):
                kw2["multiplier"] = cfg["multiplier"]
            f.mpl(**kw2)
        else:
            f.mpl.vector(**kw)
    except Exception as ex:  # noqa: BLE001
        ok_refusal = all(c is None for c in eff)
        sx.check("plot-accepted", ok_refusal and isinstance(ex, ValueError), exc=f"{type(ex).__name__}: {ex}")
        return
    calls = rec.get("quiver")
    sx.check("one-quiver-call", len(calls) == 1)
    if len(calls) != 1:
        return
    args = calls[0][1]
    sx.check("pivot-mid", calls[0][2].get("pivot") == "mid")
    drawn = lambda idx: sx.truth(valid[idx])  # noqa: E731
    for name, pos, comp in (("U", 2, eff[0]), ("V", 3, eff[1])):
        if comp is None:
            M = np.asarray(args[pos], dtype=object)
            sx.check(f"{name}-zero-when-unmapped", M.shape == (n[1], n[0]) and all((not _isnan(x)) and float(x) == 0.0 for x in M.flat))
        else:
            _check_image(sx, name, args[pos], n, lambda idx, c=comp: arr[idx + (c,)], drawn)
    if color_expected is not None:
        sx.check("colour-argument-present", len(args) == 5)
        if len(args) == 5:
            C = np.asarray(args[4], dtype=object)
            ok = C.shape == (n[1], n[0])
            sx.check("colour-shape", ok)
            if ok:
                for i in range(n[0]):
                    for j in range(n[1]):
                        sx.check(f"colour[{i},{j}]", sx.eq(C[j, i], color_expected((i, j)), scale=0.0))
    else:
        sx.check("no-colour-argument", len(args) == 4)
    _check_geometry(sx, rec, "quiver", mesh, dims, pmin, pmax, mult, n)
    if cfg.get("via_call") and nv == 3:
        im = rec.get("imshow")
        sx.check("scalar-plot-of-out-of-plane-component", len(im) == 1)
        if len(im) == 1:
            third = [c for c in range(3) if c not in eff][0]
            _check_image(sx, "out-of-plane", im[0][1][0], n, lambda idx: arr[idx + (third,)], drawn)
    _untouched(sx, f, arr, valid, mesh, n)


def h_refuse(sx, cfg):
    df = lib.load()
    m3 = df.Mesh(p1=(0, 0, 0), p2=(2, 2, 2), n=(2, 2, 2))
    m2 = df.Mesh(p1=(0, 0), p2=(2, 2), n=(2, 2))
    m1 = df.Mesh(p1=0, p2=2, n=2)
    v = sx.real("v")
    f3d = df.Field(m3, nvdim=1, value=v)
    fvec = df.Field(m2, nvdim=2, value=(v, v))
    fsc = df.Field(m2, nvdim=1, value=v)
    f4 = df.Field(m2, nvdim=4, value=(v, v, v, v))
    fnomap = df.Field(m2, nvdim=3, value=(v, v, v), vdim_mapping={})
    rec = RecorderAxes()
    cases = [
        ("3d-mesh", lambda: f3d.mpl.scalar(ax=rec), (RuntimeError, ValueError)),
        ("1d-mesh", lambda: df.Field(m1, nvdim=1, value=v).mpl.scalar(ax=rec), (RuntimeError, ValueError)),
        ("scalar-plot-of-vector", lambda: fvec.mpl.scalar(ax=rec, colorbar=False), (RuntimeError, ValueError)),
        ("contour-of-vector", lambda: fvec.mpl.contour(ax=rec, colorbar=False), (RuntimeError, ValueError)),
        ("mpl-call-nvdim-4", lambda: f4.mpl(ax=rec), (RuntimeError, ValueError)),
        ("vector-without-mapping-or-vdims", lambda: fnomap.mpl.vector(ax=rec, colorbar=False), (RuntimeError, ValueError)),
        ("vector-three-vdims", lambda: fnomap.mpl.vector(ax=rec, vdims=["x", "y", "z"], colorbar=False), (RuntimeError, ValueError)),
        ("filter-field-vector", lambda: fsc.mpl.scalar(ax=rec, filter_field=fvec, colorbar=False), (RuntimeError, ValueError)),
    ]
    for name, call, exc in cases:
        try:
            call()
        except exc:
            sx.check(name, True)
        except Exception as ex:  # noqa: BLE001
            sx.check(name, False, exc=f"{type(ex).__name__}: {ex}")
        else:
            sx.check(name, False, exc="accepted")
    sx.check("nothing-drawn", not rec.get("imshow") and not rec.get("quiver") and not rec.get("contour"))


def h_lightness(sx, cfg):
    """lightness plot (native, real matplotlib): image spans the region, invalid / filtered cells are transparent, field untouched"""
    df = lib.load()
    with sx.native():
        import matplotlib

        matplotlib.use("Agg")
        import matplotlib.pyplot as plt

        n = tuple(cfg["n"])
        g = GEOS[cfg.get("geo", "nm")]
        mesh = df.Mesh(p1=tuple(g["p1"]), p2=tuple(g["p2"]), n=n)
        rng = np.random.default_rng(4)
        nv = cfg["nvdim"]
        vals = rng.normal(size=(*n, nv))
        pat = rng.random(n) > 0.3
        pat.flat[0], pat.flat[-1] = False, True
        if nv > 1:
            vals[tuple(k - 1 for k in n)] = 0.0  # a valid cell holding the zero vector is still drawn; invalid cells hold non-zero vectors
        f = df.Field(mesh, nvdim=nv, value=vals, valid=pat, vdim_mapping={"x": "x", "y": "y", "z": None} if nv == 3 else None)
        before, vbefore = f.array.copy(), f.valid.copy()
        fig, ax = plt.subplots()
        try:
            f.mpl.lightness(ax=ax, colorwheel=False, **({"multiplier": cfg["multiplier"]} if cfg.get("multiplier") else {}))
            ims = ax.get_images()
            sx.check("one-image", len(ims) == 1)
            if ims:
                rgba = np.asarray(ims[0].get_array())
                pmin = [min(a, b) for a, b in zip(g["p1"], g["p2"])]
                pmax = [max(a, b) for a, b in zip(g["p1"], g["p2"])]
                mult = cfg.get("multiplier") or _expected_multiplier(pmin, pmax)
                sx.check("image-shape", rgba.shape == (n[1], n[0], 4))
                sx.check("extent", all(_close(float(a), b) for a, b in zip(ims[0].get_extent(), [pmin[0] / mult, pmax[0] / mult, pmin[1] / mult, pmax[1] / mult])))
                alpha = rgba[..., 3].T
                sx.check("invalid-cells-transparent", bool(np.array_equal(alpha > 0, pat)))
            sx.check("field-untouched", bool(np.array_equal(f.array, before)) and bool(np.array_equal(f.valid, vbefore)))
        finally:
            plt.close(fig)


def tasks(tier):
    q = tier == "quick"
    t = []
    big = dict(timeout_ms=60000, wall_budget=1200, max_paths=5000)
    shapes = [(2, 3), (3, 2)] if q else [(2, 3), (3, 2), (4, 2)]
    i = 0
    for n in shapes:
        for geo in ("nm", "um", "m", "km"):
            for plot in ("scalar", "contour", "call"):
                for flt in ("valid", "same", "coarse"):
                    i += 1
                    if q and i % 4 not in (0, 1):
                        continue
                    if flt == "coarse" and n[0] == 1:
                        continue
                    cfg = dict(n=list(n), geo=geo, plot=plot, filter=flt, dims="renamed" if i % 2 else "default", units=["nm", "um"] if i % 3 == 0 else None,
                               multiplier=(1e-6 if geo in ("nm", "um") else 1e3) if i % 5 == 0 else None)
                    t.append(dict(harness="h_scalar", cfg=cfg, limits=big))
    vec = []
    for n in shapes[:2]:
        for pairing in ([0, 1], [1, 0], [2, 0], [1, 2], [0, None], [None, 2]):
            vec.append(dict(n=list(n), nvdim=3, pairing=pairing, labels=["a", "b", "c"] if pairing[0] != 0 else None, color="third" if None not in pairing else None))
        vec.append(dict(n=list(n), nvdim=2, pairing=[1, 0], labels=["p", "q"]))
        vec.append(dict(n=list(n), nvdim=2, pairing=None))
        vec.append(dict(n=list(n), nvdim=3, pairing=[0, 1], vdims=[2, 0], color="third"))
        vec.append(dict(n=list(n), nvdim=3, pairing=[0, 1], vdims=[None, 1]))
        vec.append(dict(n=list(n), nvdim=3, pairing=[2, 1], labels=["a", "b", "c"], color="field"))
        vec.append(dict(n=list(n), nvdim=3, pairing=[0, 1], color="field-same-count"))
        vec.append(dict(n=list(n), nvdim=3, pairing=[1, 2], labels=["a", "b", "c"], via_call=True))
        vec.append(dict(n=list(n), nvdim=3, pairing=[None, None]))
    for j, cfg in enumerate(vec):
        cfg = dict(cfg, geo=("nm", "um", "m", "km")[j % 4], dims="renamed" if j % 2 else "default", multiplier=1e-6 if (j % 7 == 0 and j % 4 < 2) else None)
        if q and j % 3 == 2 and cfg.get("pairing") in ([0, 1],):
            continue
        t.append(dict(harness="h_vector", cfg=cfg, limits=big))
    # an explicit multiplier far from the natural one (coordinates of order 1e-9 in the plot's units), corners off the nanometre grid
    for plot, mult in (("scalar", 1), ("call", 1e-3), ("contour", 1), ("scalar", None)):
        t.append(dict(harness="h_scalar", cfg=dict(n=[2, 3], geo="nmodd", plot=plot, filter="valid", dims="default", multiplier=mult), limits=big))
    t.append(dict(harness="h_vector", cfg=dict(n=[3, 2], nvdim=3, pairing=[0, 1], geo="nmodd", dims="default", multiplier=1), limits=big))
    t.append(dict(harness="h_refuse", cfg={}))
    for n, nv, geo in (((2, 3), 1, "nm"), ((3, 2), 3, "m"), ((3, 3), 2, "um"), ((2, 3), 1, "nmodd")):
        t.append(dict(harness="h_lightness", cfg=dict(n=list(n), nvdim=nv, geo=geo, multiplier=1 if geo == "nmodd" else None)))
    return t
