"""C07 -- sub-selection, padding and resampling keep every value at its physical position (DESIGN 2/C07)."""
from __future__ import annotations

import itertools
from fractions import Fraction as F

import numpy as np

from symx import lib

from .common import DIMSETS, sym_mesh

META = dict(
    bounds=dict(
        quick=dict(also="a different unit per axis; mask / values edited in place between two resamplings; decimal geometries with new centres on old faces",
                   ndim="1..3", n="<=3 per axis (<=4 in 1-d)", nvdim="1..2", pad="0..2 cells per side; constant/wrap/edge/symmetric",
                   resample="concrete non-commensurate and commensurate target resolutions", subregions="none / two (cell-aligned)"),
        thorough=dict(ndim="1..4", n="<=4 per axis", nvdim="1..3", pad="0..2 per side, all modes, two directions at once",
                      resample="more resolutions, 3-d", subregions="none / two / overlapping"),
    ),
    stubs=["xarray: the real library (.sel nearest) for resampling with concrete geometry"],
    assumptions=["REAL theory", "tolerance band 2*tf*(min_edge+|x|) at cell faces may resolve to either adjacent cell",
                 "resampling: concrete geometry, symbolic values and validity"],
    outside=["n > 4", "NaN values", "binary64 rounding of coordinates exactly on faces (band)"],
)

TF = 1e-12


UNITS = ["nm", "um", "ns", "mm"]


def _mesh(sx, df, cfg, n, dims=None, **kw):
    """symbolic geometry, or (cfg['box']) a concrete box given with integer-typed corners (the library keeps int arrays then)"""
    if cfg.get("units"):
        kw["units"] = UNITS[: len(n)]  # a different unit on every axis
    if cfg.get("box"):
        p1, p2 = cfg["box"]
        nd = len(n)
        region = df.Region(p1=tuple(p1) if nd > 1 else p1[0], p2=tuple(p2) if nd > 1 else p2[0], dims=dims, units=kw.get("units"))
        mesh = df.Mesh(region=region, n=n if nd > 1 else n[0])
        pmin = [min(a, b) for a, b in zip(p1, p2)]
        e = [abs(b - a) for a, b in zip(p1, p2)]
        return mesh, pmin, e
    return sym_mesh(sx, n, dims=dims, **kw)


def _field(sx, df, mesh, nv, labels=None):
    n = tuple(int(x) for x in mesh.n)
    vals = sx.real_array("v", (*n, nv))
    valid = sx.bool_array("ok", n)
    f = df.Field(mesh, nvdim=nv, value=vals, valid=valid, vdims=labels, unit="A/m")
    return f, vals, valid


def _mine(sx, e):
    if not sx.sym or all(isinstance(x, (int, float)) for x in e):
        return min(e)
    m = e[0]
    for x in e[1:]:
        m = sx.min(m, x)
    return m


def _cell_cond(sx, x, lo, c, j, nax, band):
    """x lies in cell j (closed, enlarged by the band)"""
    return sx.And(x >= lo + j * c - band, x <= lo + (j + 1) * c + band)


def _strict_cell(sx, x, lo, c, j, nax, band):
    """x lies in cell j by more than the band (lower face inclusive for j == 0, upper for the last)"""
    lower = x >= lo + j * c + band if j > 0 else x >= lo
    upper = x < lo + (j + 1) * c - band if j < nax - 1 else x <= lo + (j + 1) * c
    return sx.And(lower, upper)


def _same_valid(sx, a, b):
    return sx.eq(sx.truth(a), sx.truth(b))


def h_plane(sx, cfg):
    """plane selection: removes the axis at the cell containing x (or the central cell)"""
    df = lib.load()
    n = tuple(cfg["n"])
    nd = len(n)
    nv = cfg["nvdim"]
    ax = cfg["axis"]
    dims = DIMSETS[cfg.get("dims", "default")][nd]
    mesh, pmin, e = _mesh(sx, df, cfg, n, dims=dims)
    labels = ["a", "b", "c"][:nv] if nv > 1 and cfg.get("labels") else None
    f, vals, valid = _field(sx, df, mesh, nv, labels)
    c = e[ax] / n[ax]
    how = cfg["how"]
    if how == "centre":
        try:
            g = f.sel(dims[ax])
        except Exception as ex:  # noqa: BLE001
            sx.check("centre-plane-accepted", False, exc=f"{type(ex).__name__}: {ex}")
            return
        cand = [n[ax] // 2] if n[ax] % 2 else [n[ax] // 2 - 1, n[ax] // 2]
        x = None
    else:
        x = sx.real("x")
        band = 2 * TF * (_mine(sx, e) + abs(x))
        inside = sx.And(x >= pmin[ax], x <= pmin[ax] + e[ax])
        try:
            g = f.sel(**{dims[ax]: x})
        except ValueError:
            sx.check("reject-only-outside", sx.Not(inside))
            return
        sx.check("accept-only-inside", sx.And(x >= pmin[ax] - band, x <= pmin[ax] + e[ax] + band))
        cand = list(range(n[ax]))
    rest = [a for a in range(nd) if a != ax]
    if nd == 1:
        # 1-d: the value array of that cell
        sx.check("1d-returns-array", not isinstance(g, df.Field) and tuple(np.shape(g)) == (nv,))
        alts = []
        for j in cand:
            cond = sx.And(*[sx.eq(g[k], vals[(j, k)]) for k in range(nv)])
            if x is not None:
                sx.check(f"value-in-cell[{j}]", sx.Implies(_strict_cell(sx, x, pmin[ax], c, j, n[ax], band), cond))
                cond = sx.And(cond, _cell_cond(sx, x, pmin[ax], c, j, n[ax], band))
            alts.append(cond)
        sx.check("value-of-a-containing-cell", sx.Or(*alts))
        return
    sx.check("is-field", isinstance(g, df.Field))
    sx.check("mesh-n", tuple(int(v) for v in g.mesh.n) == tuple(n[a] for a in rest))
    sx.check("mesh-dims", tuple(g.mesh.region.dims) == tuple(dims[a] for a in rest))
    sx.check("mesh-units", tuple(g.mesh.region.units) == tuple(mesh.region.units[a] for a in rest))
    sx.check("mesh-pmin", sx.eq(list(g.mesh.region.pmin), [pmin[a] for a in rest]))
    sx.check("mesh-pmax", sx.eq(list(g.mesh.region.pmax), [pmin[a] + e[a] for a in rest]))
    sx.check("meta", g.nvdim == nv and g.vdims == f.vdims and g.unit == f.unit)
    shape_ok = tuple(np.shape(g.array)) == (*[n[a] for a in rest], nv) and tuple(np.shape(g.valid)) == tuple(n[a] for a in rest)
    sx.check("shape", shape_ok)
    if not shape_ok:
        return

    def same_as(j):
        conds = []
        for ridx in np.ndindex(*[n[a] for a in rest]):
            full = list(ridx)
            full.insert(ax, j)
            full = tuple(full)
            for k in range(nv):
                conds.append(sx.eq(g.array[ridx + (k,)], vals[full + (k,)]))
            conds.append(_same_valid(sx, g.valid[ridx], valid[full]))
        return sx.And(*conds)

    alts = []
    for j in cand:
        cond = same_as(j)
        if x is not None:
            sx.check(f"plane-at-cell[{j}]", sx.Implies(_strict_cell(sx, x, pmin[ax], c, j, n[ax], band), cond))
            cond = sx.And(cond, _cell_cond(sx, x, pmin[ax], c, j, n[ax], band))
        alts.append(cond)
    sx.check("plane-of-a-containing-cell", sx.Or(*alts))
    sx.check("source-untouched", sx.And(sx.eq(f.array, vals), tuple(int(v) for v in f.mesh.n) == n))


def h_range(sx, cfg):
    """range selection: exactly the cells from the one containing the lower bound to the one containing the upper bound"""
    df = lib.load()
    n = tuple(cfg["n"])
    nd = len(n)
    nv = cfg["nvdim"]
    ax = cfg["axis"]
    dims = DIMSETS[cfg.get("dims", "default")][nd]
    mesh, pmin, e = _mesh(sx, df, cfg, n, dims=dims, flip=False)
    f, vals, valid = _field(sx, df, mesh, nv)
    c = e[ax] / n[ax]
    if cfg.get("lo_int") is not None:
        # mixed typing: an integer lower bound with a float upper bound (integer-typed corners keep int arrays in the library)
        u, w = int(cfg["lo_int"]), sx.real("w")
        sx.assume(w >= u)
    else:
        u, w = sx.real("u"), sx.real("w")
    lo, hi = sx.min(u, w), sx.max(u, w)
    band = 2 * TF * (_mine(sx, e) + abs(u) + abs(w))
    inside = sx.And(lo >= pmin[ax], hi <= pmin[ax] + e[ax])
    arg = (u, w) if cfg.get("as_tuple", True) else [u, w]
    try:
        g = f.sel(**{dims[ax]: arg})
    except ValueError:
        sx.check("reject-only-outside", sx.Not(inside))
        return
    sx.check("accept-only-inside", sx.And(lo >= pmin[ax] - band, hi <= pmin[ax] + e[ax] + band))
    gn = tuple(int(v) for v in g.mesh.n)
    sx.check("other-axes-kept", all(gn[a] == n[a] for a in range(nd) if a != ax) and len(gn) == nd)
    m = gn[ax]
    sx.check("dims-units", tuple(g.mesh.region.dims) == tuple(dims) and tuple(g.mesh.region.units) == tuple(mesh.region.units))
    # the kept block [j0, j0+m) is identified through the result geometry; then checked against the bounds
    alts = []
    for j0 in range(0, n[ax] - m + 1):
        j1 = j0 + m - 1
        geo = [sx.eq(g.mesh.region.pmin[a], pmin[a]) if a != ax else sx.eq(g.mesh.region.pmin[a], pmin[a] + j0 * c) for a in range(nd)]
        geo += [sx.eq(g.mesh.region.pmax[a], pmin[a] + e[a]) if a != ax else sx.eq(g.mesh.region.pmax[a], pmin[a] + (j1 + 1) * c) for a in range(nd)]
        data = []
        for idx in np.ndindex(*gn):
            src = list(idx)
            src[ax] += j0
            src = tuple(src)
            for k in range(nv):
                data.append(sx.eq(g.array[idx + (k,)], vals[src + (k,)]))
            data.append(_same_valid(sx, g.valid[idx], valid[src]))
        bounds = sx.And(_cell_cond(sx, lo, pmin[ax], c, j0, n[ax], band), _cell_cond(sx, hi, pmin[ax], c, j1, n[ax], band))
        alts.append(sx.And(*geo, *data, bounds))
        # strict version: when both bounds are well inside their cells, the block is exactly [j0, j1]
        strict = sx.And(_strict_cell(sx, lo, pmin[ax], c, j0, n[ax], band), _strict_cell(sx, hi, pmin[ax], c, j1, n[ax], band))
        sx.check(f"block[{j0}:{j1}]", sx.Implies(strict, sx.And(*geo, *data)))
    sx.check("block-from-lower-cell-to-upper-cell", sx.Or(*alts) if alts else False)
    sx.check("meta", g.nvdim == nv and g.vdims == f.vdims and g.unit == f.unit)
    sx.check("source-untouched", sx.eq(f.array, vals))


def _aligned_box(pmin, c, lo, hi):
    return [pmin[a] + lo[a] * c[a] for a in range(len(lo))], [pmin[a] + hi[a] * c[a] for a in range(len(lo))]


def h_by_name(sx, cfg):
    """extraction by subregion name and region2slices of aligned regions"""
    df = lib.load()
    n = tuple(cfg["n"])
    nd = len(n)
    nv = cfg["nvdim"]
    mesh0, pmin, e = sym_mesh(sx, n, flip=False)
    c = [e[a] / n[a] for a in range(nd)]
    boxes = cfg["boxes"]  # name -> (lo idx, hi idx)
    subs = {}
    for name, (lo, hi) in boxes.items():
        p1, p2 = _aligned_box(pmin, c, lo, hi)
        subs[name] = df.Region(p1=p1, p2=p2)
    mesh = df.Mesh(region=mesh0.region, n=n, subregions=subs)
    f, vals, valid = _field(sx, df, mesh, nv)
    for name, (lo, hi) in boxes.items():
        sl = mesh.region2slices(mesh.subregions[name])
        sx.check(f"slices-{name}", tuple((int(s.start), int(s.stop)) for s in sl) == tuple((lo[a], hi[a]) for a in range(nd)))
        g = f[name]
        p1, p2 = _aligned_box(pmin, c, lo, hi)
        sx.check(f"{name}-region", sx.And(sx.eq(list(g.mesh.region.pmin), p1), sx.eq(list(g.mesh.region.pmax), p2)))
        sx.check(f"{name}-n", tuple(int(v) for v in g.mesh.n) == tuple(hi[a] - lo[a] for a in range(nd)))
        sx.check(f"{name}-cell", sx.eq(list(g.mesh.cell), c))
        sx.check(f"{name}-meta", g.nvdim == nv and g.vdims == f.vdims and g.unit == f.unit)
        for idx in np.ndindex(*[hi[a] - lo[a] for a in range(nd)]):
            src = tuple(idx[a] + lo[a] for a in range(nd))
            for k in range(nv):
                sx.check(f"{name}-value{idx}[{k}]", sx.eq(g.array[idx + (k,)], vals[src + (k,)]))
            sx.check(f"{name}-valid{idx}", _same_valid(sx, g.valid[idx], valid[src]))
    try:
        f["no-such-subregion"]
    except KeyError:
        sx.check("unknown-name-refused", True)
    else:
        sx.check("unknown-name-refused", False)


def h_by_region(sx, cfg):
    """extraction by an arbitrary box: the smallest block of whole cells containing it"""
    df = lib.load()
    n = tuple(cfg["n"])
    nd = len(n)
    nv = cfg["nvdim"]
    # concrete (anisotropic, offset) mesh geometry, symbolic box corners: keeps floor/ceil of the corners linear
    pmin = [float(x) for x in cfg.get("pmin", [-1.5, 0.25, 3.0, 0.0][:nd])]
    e = [float(x) for x in cfg.get("edges", [3.0, 1.0, 0.75, 2.0][:nd])]
    mesh = df.Mesh(p1=tuple(pmin) if nd > 1 else pmin[0], p2=tuple(pmin[a] + e[a] for a in range(nd)) if nd > 1 else pmin[0] + e[0], n=n if nd > 1 else n[0])
    c = [e[a] / n[a] for a in range(nd)]
    f, vals, valid = _field(sx, df, mesh, nv)
    a_ = sx.reals("a", nd)
    w_ = sx.reals("w", nd)
    for x in w_:
        sx.assume(x > 0)
    b_ = [a_[i] + w_[i] for i in range(nd)]
    mine = min(e)
    inside = sx.And(*[sx.And(a_[i] >= pmin[i], b_[i] <= pmin[i] + e[i]) for i in range(nd)])
    try:
        box = df.Region(p1=a_, p2=b_)
    except ValueError:
        if sx.sym:
            raise
        from symx.core import PathAbort

        raise PathAbort("box width absorbed by binary64 rounding")  # native replay only: w > 0 is not representable
    bands0 = [2 * TF * (mine + abs(a_[i]) + abs(b_[i])) for i in range(nd)]
    # rejection is allowed for boxes reaching the region faces up to the band (the concrete float geometry is exact only to an ulp)
    inside = sx.And(*[sx.And(a_[i] >= pmin[i] + bands0[i], b_[i] <= pmin[i] + e[i] - bands0[i]) for i in range(nd)])
    try:
        g = f[box]
    except (ValueError, IndexError):
        # IndexError: a box sticking out by less than the region's tolerance passes `in` and fails in the index arithmetic;
        # either way the request is rejected, and only boxes that are not inside may be
        sx.check("reject-only-outside", sx.Not(inside))
        return
    bands = [2 * TF * (mine + abs(a_[i]) + abs(b_[i])) for i in range(nd)]
    sx.check("accept-only-inside", sx.And(*[sx.And(a_[i] >= pmin[i] - bands[i], b_[i] <= pmin[i] + e[i] + bands[i]) for i in range(nd)]))
    gn = tuple(int(v) for v in g.mesh.n)
    sx.check("cell-kept", sx.And(*[sx.And(g.mesh.cell[i] <= c[i] * (1 + 1e-9), c[i] <= g.mesh.cell[i] * (1 + 1e-9)) for i in range(nd)]))
    # identify the block through the geometry of the result
    alts = []
    for lo in itertools.product(*[range(0, n[i] - gn[i] + 1) for i in range(nd)]):
        hi = [lo[i] + gn[i] for i in range(nd)]
        p1, p2 = _aligned_box(pmin, c, lo, hi)
        # concrete float geometry: the library's folded floats and the oracle's may differ by an ulp -> compare within the band
        geo = sx.And(*[sx.And(g.mesh.region.pmin[i] <= p1[i] + bands[i], p1[i] <= g.mesh.region.pmin[i] + bands[i],
                              g.mesh.region.pmax[i] <= p2[i] + bands[i], p2[i] <= g.mesh.region.pmax[i] + bands[i]) for i in range(nd)])
        data = []
        for idx in np.ndindex(*gn):
            src = tuple(idx[i] + lo[i] for i in range(nd))
            for k in range(nv):
                data.append(sx.eq(g.array[idx + (k,)], vals[src + (k,)]))
            data.append(_same_valid(sx, g.valid[idx], valid[src]))
        contains = sx.And(*[sx.And(p1[i] <= a_[i] + bands[i], b_[i] <= p2[i] + bands[i]) for i in range(nd)])
        # smallest: dropping the outermost layer on either side would cut into the box (beyond the band)
        minimal = sx.And(*[sx.And(sx.Or(gn[i] == 1, a_[i] < p1[i] + c[i] + bands[i]), sx.Or(gn[i] == 1, b_[i] > p2[i] - c[i] - bands[i])) for i in range(nd)])
        alts.append(sx.And(geo, contains, minimal, *data))
    sx.check("smallest-aligned-block-with-source-values", sx.Or(*alts) if alts else False)
    sx.check("meta", g.nvdim == nv and g.vdims == f.vdims and g.unit == f.unit)


def _pad_index(mode, i, n, before):
    """source index (or None for constant fill) of padded position i (0-based in the padded line) -- numpy.pad semantics"""
    j = i - before
    if 0 <= j < n:
        return j
    if mode == "constant":
        return None
    if mode == "edge":
        return 0 if j < 0 else n - 1
    if mode == "wrap":
        return j % n
    if mode == "symmetric":
        period = 2 * n
        j %= period
        return j if j < n else period - 1 - j
    if mode == "reflect":
        if n == 1:
            return 0
        period = 2 * n - 2
        j %= period
        return j if j < n else period - j
    raise ValueError(mode)


def h_pad(sx, cfg):
    df = lib.load()
    n = tuple(cfg["n"])
    nd = len(n)
    nv = cfg["nvdim"]
    dims = DIMSETS[cfg.get("dims", "default")][nd]
    bc = cfg.get("bc", "")
    if bc:
        bc = "".join(dims[int(ch)] for ch in bc)
    mesh, pmin, e = sym_mesh(sx, n, dims=dims, bc=bc)
    c = [e[a] / n[a] for a in range(nd)]
    f, vals, valid = _field(sx, df, mesh, nv)
    widths = {int(k): tuple(v) for k, v in cfg["pad"].items()}
    mode = cfg["mode"]
    g = f.pad({dims[a]: w for a, w in widths.items()}, mode=mode)
    newn = tuple(n[a] + sum(widths.get(a, (0, 0))) for a in range(nd))
    sx.check("n-grows-by-widths", tuple(int(v) for v in g.mesh.n) == newn)
    sx.check("pmin", sx.eq(list(g.mesh.region.pmin), [pmin[a] - widths.get(a, (0, 0))[0] * c[a] for a in range(nd)]))
    sx.check("pmax", sx.eq(list(g.mesh.region.pmax), [pmin[a] + e[a] + widths.get(a, (0, 0))[1] * c[a] for a in range(nd)]))
    sx.check("cell-kept", sx.eq(list(g.mesh.cell), c))
    sx.check("bc-dims-units-kept", g.mesh.bc == mesh.bc and tuple(g.mesh.region.dims) == tuple(dims) and tuple(g.mesh.region.units) == tuple(mesh.region.units))
    sx.check("meta", g.nvdim == nv and g.vdims == f.vdims and g.unit == f.unit)
    ok = tuple(np.shape(g.array)) == (*newn, nv) and tuple(np.shape(g.valid)) == newn
    sx.check("shape", ok)
    if not ok:
        return
    for idx in np.ndindex(*newn):
        src = [_pad_index(mode, idx[a], n[a], widths.get(a, (0, 0))[0]) for a in range(nd)]
        interior = all(0 <= idx[a] - widths.get(a, (0, 0))[0] < n[a] for a in range(nd))
        tag = "interior" if interior else f"added-{mode}"
        if any(s is None for s in src):
            for k in range(nv):
                sx.check(f"{tag}-value{idx}[{k}]", sx.eq(g.array[idx + (k,)], 0.0))
            sx.check(f"{tag}-valid{idx}", _same_valid(sx, g.valid[idx], False))
        else:
            for k in range(nv):
                sx.check(f"{tag}-value{idx}[{k}]", sx.eq(g.array[idx + (k,)], vals[tuple(src) + (k,)]))
            sx.check(f"{tag}-valid{idx}", _same_valid(sx, g.valid[idx], valid[tuple(src)]))
    sx.check("source-untouched", sx.And(sx.eq(f.array, vals), tuple(int(v) for v in f.mesh.n) == n))


def h_resample(sx, cfg):
    """nearest-cell resampling on the same region: value and validity of the source cell containing each new centre"""
    df = lib.load()
    n = tuple(cfg["n"])
    tn = tuple(cfg["target"])
    nd = len(n)
    nv = cfg["nvdim"]
    p1, p2 = cfg["box"]
    mesh = df.Mesh(p1=tuple(p1) if nd > 1 else p1[0], p2=tuple(p2) if nd > 1 else p2[0], n=n if nd > 1 else n[0])
    labels = ["a", "b", "c"][:nv] if nv > 1 else None
    f, vals, valid = _field(sx, df, mesh, nv, labels)
    g = f.resample(tn if nd > 1 else tn[0])
    sx.check("n-as-requested", tuple(int(v) for v in g.mesh.n) == tn)
    sx.check("region-kept", g.mesh.region == mesh.region and bool(np.all(g.mesh.region.pmin == mesh.region.pmin)) and bool(np.all(g.mesh.region.pmax == mesh.region.pmax)))
    sx.check("meta", g.nvdim == nv and g.vdims == f.vdims and g.unit == f.unit)
    ok = tuple(np.shape(g.array)) == (*tn, nv) and tuple(np.shape(g.valid)) == tn
    sx.check("shape", ok)
    if not ok:
        return
    _resample_cells(sx, g, "", n, tn, nv, vals, valid, ties=cfg.get("ties", "upper"))
    if cfg.get("history"):
        # the mask and the values are edited in place between two resamplings: the second follows the current state
        w_ok = sx.bool("w_ok")
        w_v = sx.real("w_v")
        first = (0,) * nd
        f.valid[first] = w_ok
        f.array[first + (0,)] = w_v
        valid2 = np.array(valid, dtype=object, copy=True)
        valid2[first] = w_ok
        vals2 = np.array(vals, dtype=object, copy=True)
        vals2[first + (0,)] = w_v
        g2 = f.resample(tn if nd > 1 else tn[0])
        _resample_cells(sx, g2, "after-in-place-edit-", n, tn, nv, vals2, valid2)
    for bad in ([0] * nd, [2] * (nd + 1)):
        try:
            f.resample(tuple(bad))
        except (ValueError, TypeError, IndexError):
            sx.check(f"bad-target-{len(bad)}-refused", True)
        else:
            sx.check(f"bad-target-{len(bad)}-refused", False)


def _resample_cells(sx, g, tag, n, tn, nv, vals, valid, ties="upper"):
    nd = len(n)
    for idx in np.ndindex(*tn):
        cands = None
        for a in range(nd):
            q = (F(2 * idx[a] + 1) / 2) * n[a] / tn[a]  # centre in units of source cells
            # a centre exactly on a source face belongs to the upper cell (cells are lower-face inclusive, C01); the
            # geometries used here are binary fractions, so the tie is exact in binary64 as well
            ja = [min(int(q // 1), n[a] - 1)]
            if ties == "either" and q == q // 1 and 0 < q < n[a]:
                # decimal geometry: the centre's binary64 coordinate may fall on either side of the face; value and validity
                # must still come from one and the same source cell
                ja = [int(q) - 1, int(q)]
            cands = [[j] for j in ja] if cands is None else [cd + [j] for cd in cands for j in ja]
        alts = []
        for cd in cands:
            cd = tuple(cd)
            alts.append(sx.And(*[sx.eq(g.array[idx + (k,)], vals[cd + (k,)]) for k in range(nv)], _same_valid(sx, g.valid[idx], valid[cd])))
        sx.check(f"{tag}cell{idx}", sx.Or(*alts))


def h_refuse(sx, cfg):
    df = lib.load()
    mesh, pmin, e = sym_mesh(sx, (2, 2), flip=False)
    f, vals, valid = _field(sx, df, mesh, 1)
    x = sx.real("x")
    for name, call, excs in (
        ("unknown-dimension", lambda: f.sel(q=x), (ValueError,)),
        ("unknown-dimension-positional", lambda: f.sel("q"), (ValueError,)),
        ("two-dimensions", lambda: f.sel(x=x, y=x), (ValueError,)),
        ("three-point-range", lambda: f.sel(x=(x, x, x)), (ValueError,)),
        ("non-numeric-range", lambda: f.sel(x=("a", "b")), (TypeError,)),
        ("string-value", lambda: f.sel(x="a"), (TypeError,)),
        ("pad-unknown-dimension", lambda: f.pad({"q": (1, 1)}, mode="constant"), (ValueError,)),
    ):
        try:
            call()
        except excs:
            sx.check(name, True)
        except Exception as ex:  # noqa: BLE001
            sx.check(name, False, exc=f"{type(ex).__name__}: {ex}")
        else:
            sx.check(name, False, exc="accepted")
    sx.check("source-untouched", sx.eq(f.array, vals))


def tasks(tier):
    q = tier == "quick"
    t = []
    big = dict(max_paths=20000, wall_budget=1500, timeout_ms=60000)
    planes = [((3,), 1, 0), ((4,), 2, 0), ((3, 2), 1, 0), ((2, 3), 2, 1), ((2, 3, 2), 1, 1), ((2, 1, 3), 1, 2)]
    if not q:
        planes += [((4, 3), 2, 0), ((3, 4), 1, 1), ((3, 2, 2), 2, 0), ((2, 2, 4), 1, 2), ((2, 1, 2, 3), 1, 3), ((2, 3, 1, 2), 1, 1)]
    for i, (n, nv, ax) in enumerate(planes):
        for how in ("value", "centre"):
            t.append(dict(harness="h_plane", cfg=dict(n=list(n), nvdim=nv, axis=ax, how=how, dims="renamed" if i % 2 else "default", labels=bool(i % 2),
                                                      units=bool((i + (how == "centre")) % 2)), limits=big))
    # integer-typed corners with fractional cells and negative coordinates (the library keeps int arrays for such regions)
    for n, box, ax in ([((4,), [[-1], [1]], 0), ((3, 4), [[0, -5], [3, 5]], 1)] if q else [((4,), [[-1], [1]], 0), ((3, 4), [[0, -5], [3, 5]], 1), ((4, 2, 2), [[2, 0, 0], [0, 1, 3]], 0)]):
        t.append(dict(harness="h_plane", cfg=dict(n=list(n), nvdim=1, axis=ax, how="value", box=box), limits=dict(big, validate=12)))
        t.append(dict(harness="h_range", cfg=dict(n=list(n), nvdim=1, axis=ax, box=box), limits=dict(big, validate=12)))
        t.append(dict(harness="h_range", cfg=dict(n=list(n), nvdim=1, axis=ax, box=box, lo_int=min(box[0][ax], box[1][ax]) + (1 if len(n) > 1 else 0)), limits=dict(big, validate=12)))
    ranges = [((3,), 1, 0), ((4,), 1, 0), ((3, 2), 2, 0), ((2, 3), 1, 1), ((2, 3, 1), 1, 1)]
    if not q:
        ranges += [((4, 2), 1, 0), ((2, 4), 2, 1), ((3, 2, 2), 1, 0), ((1, 2, 3), 2, 2), ((2, 1, 3, 1), 1, 2)]
    for i, (n, nv, ax) in enumerate(ranges):
        t.append(dict(harness="h_range", cfg=dict(n=list(n), nvdim=nv, axis=ax, as_tuple=bool(i % 2 == 0), dims="renamed" if i % 2 else "default", units=bool(i % 2 == 0)), limits=big))
    names = [
        dict(n=[4], nvdim=1, boxes={"left": ([0], [2]), "right": ([2], [4])}),
        dict(n=[3, 2], nvdim=2, boxes={"s1": ([0, 0], [2, 2]), "s2": ([1, 1], [3, 2])}),
        dict(n=[2, 3, 2], nvdim=1, boxes={"s1": ([0, 0, 0], [1, 3, 2]), "inner": ([1, 1, 0], [2, 2, 1])}),
    ]
    if not q:
        names += [dict(n=[4, 3], nvdim=3, boxes={"a": ([0, 0], [4, 1]), "b": ([1, 1], [3, 3]), "all": ([0, 0], [4, 3])}),
                  dict(n=[2, 2, 1, 2], nvdim=1, boxes={"s": ([0, 1, 0, 0], [2, 2, 1, 1])})]
    for cfg in names:
        t.append(dict(harness="h_by_name", cfg=cfg, limits=dict(big, validate=4)))
    for n, nv in ([((3,), 1), ((3, 2), 1)] if q else [((3,), 1), ((4,), 2), ((3, 2), 1), ((2, 3), 2), ((2, 2, 2), 1)]):
        t.append(dict(harness="h_by_region", cfg=dict(n=list(n), nvdim=nv), limits=big))
    # decimal cell sizes (0.1, 0.3: not representable in binary64); every path is also replayed natively
    t.append(dict(harness="h_by_region", cfg=dict(n=[4], nvdim=1, pmin=[0.0], edges=[1.2]), limits=dict(big, validate=40)))
    t.append(dict(harness="h_by_region", cfg=dict(n=[3], nvdim=1, pmin=[0.1], edges=[0.9]), limits=dict(big, validate=40)))
    if not q:
        t.append(dict(harness="h_by_region", cfg=dict(n=[3, 4], nvdim=1, pmin=[0.1, -0.3], edges=[0.9, 1.2]), limits=dict(big, validate=150)))
        t.append(dict(harness="h_by_region", cfg=dict(n=[4], nvdim=1, pmin=[-0.3], edges=[1.2]), limits=dict(big, validate=40)))
    pads = []
    for mode in ("constant", "wrap", "edge", "symmetric"):
        pads += [dict(n=[3], nvdim=1, pad={"0": [1, 2]}, mode=mode), dict(n=[2, 3], nvdim=2, pad={"1": [2, 0]}, mode=mode, dims="renamed", bc="1"),
                 dict(n=[2, 1, 2], nvdim=1, pad={"0": [1, 1], "2": [0, 1]}, mode=mode)]
        if not q:
            pads += [dict(n=[1], nvdim=2, pad={"0": [2, 2]}, mode=mode), dict(n=[3, 2], nvdim=1, pad={"0": [2, 1], "1": [1, 2]}, mode=mode, bc="01"),
                     dict(n=[2, 2, 2], nvdim=3, pad={"1": [0, 2]}, mode=mode), dict(n=[2, 1, 1, 2], nvdim=1, pad={"3": [1, 1], "0": [1, 0]}, mode=mode)]
    if not q:
        pads.append(dict(n=[3], nvdim=1, pad={"0": [2, 2]}, mode="reflect"))
    for cfg in pads:
        t.append(dict(harness="h_pad", cfg=cfg, limits=big))
    res = [
        dict(n=[3], target=[5], box=[[0.0], [3.0]], nvdim=1),
        dict(n=[4], target=[2], box=[[1.0], [-3.0]], nvdim=2, history=True),
        dict(n=[2, 3], target=[3, 2], box=[[0.0, 0.0], [2.0, 3.0]], nvdim=1, history=True),
        dict(n=[3, 2], target=[3, 2], box=[[-1.0, 0.5], [2.0, 4.5]], nvdim=2),
        dict(n=[2, 2, 1], target=[1, 3, 2], box=[[0, 0, 0], [4.0, 6.0, 1.0]], nvdim=1),
        # decimal geometries with new centres on old faces
        dict(n=[4], target=[2], box=[[0.0], [8e-9]], nvdim=1, ties="either"),
        dict(n=[10], target=[5], box=[[0.0], [1.0]], nvdim=1, ties="either"),
        dict(n=[2, 4], target=[3, 2], box=[[0.1, 0.0], [0.7, 8e-9]], nvdim=2, ties="either"),
    ]
    if not q:
        res += [dict(n=[5], target=[7], box=[[0.0], [1e-8]], nvdim=1), dict(n=[3, 3], target=[6, 1], box=[[0.0, 0.0], [3.0, 3.0]], nvdim=3),
                dict(n=[2, 3, 2], target=[3, 2, 3], box=[[0, 0, 0], [2.0, 3.0, 2.0]], nvdim=1), dict(n=[2, 1, 2, 1], target=[1, 2, 1, 2], box=[[0, 0, 0, 0], [2.0, 1.0, 2.0, 1.0]], nvdim=1)]
    for cfg in res:
        t.append(dict(harness="h_resample", cfg=cfg, limits=big))
    t.append(dict(harness="h_refuse", cfg={}))
    return t
