"""C09 -- OVF files round-trip fields and follow the OVF 1.0/2.0 format (DESIGN 2/C09)."""
from __future__ import annotations

import contextlib
import glob
import os
import re
import struct
import tempfile

import numpy as np

from symx import lib, stubs

META = dict(
    bounds=dict(
        quick=dict(also="non-finite, signed-zero and extreme values through bin8 / bin4 with and without scalar extension (native); non-ASCII mesh and field units",
                   mesh_n="(2,1,1), (2,3,2), (1,2,3)", nvdim="1..4", representations="bin8, bin4 (symbolic values); txt (native)", extend_scalar="on/off", unit="None, 'A/m', 'T'",
                   labels="default, custom, containing '_', containing digits", subregions="none / two", corners="int- or float-typed, nm scale / offset",
                   corruption="every single-bit flip and byte increment of the check value; every truncation length of the data block (native sweep)"),
        thorough=dict(mesh_n="as quick plus (3,2,2), (1,1,4)", nvdim="1..5", representations="as quick", extend_scalar="on/off", unit="as quick", labels="as quick", subregions="as quick",
                      corners="as quick", corruption="as quick"),
    ),
    stubs=["builtins.open / numpy.fromfile / ndarray.tobytes inside discretisedfield.io.ovf: in-memory file of header bytes and typed chunks ('<d' identity, '<f' = uninterpreted "
           "f32 rounding, other byte order = unrelated values, short reads return fewer items)", "json side-car: in-memory store through the library's encoder",
           "native replays: real files in a scratch directory"],
    assumptions=["REAL theory for the payload (values are moved, not computed)", "geometry is concrete: the header is text (formatting symbolic numbers is out of reach)",
                 "Python float comparison is IEEE-754 equality (check-value lemma decided by z3 over bit-vectors/FP)"],
    outside=["text formatting exactness of CPython/pandas (checked natively to 1e-9 relative)", "files larger than one 100000-value chunk", "labels with spaces", "NaN payloads"],
)

LABELSETS = {
    "default": {1: None, 2: None, 3: None, 4: None, 5: None},
    "custom": {1: None, 2: ["a", "b"], 3: ["mx", "my", "mz"], 4: ["p", "q", "r", "t"], 5: ["p", "q", "r", "t", "u"]},
    "underscore": {1: None, 2: ["m_x", "m_y"], 3: ["h_eff_x", "h_eff_y", "h_eff_z"], 4: ["a_1", "a_2", "b_1", "b_2"], 5: None},
    "digits": {1: None, 2: ["c1", "c2"], 3: ["v0", "v1", "v2"], 4: ["k1", "k2", "k3", "k4"], 5: None},
}


# ------------------------------------------------------------------------------------------------ independent OVF codec
def _flatten(items):
    """items: list of bytes / SymChunk -> (header_text, mode, nbytes, check_bytes, data(list or bytes), footer_bytes)"""
    buf = b""
    rest = list(items)
    # collect leading bytes up to and including the 'Begin: Data' line
    while rest and isinstance(rest[0], (bytes, bytearray)) and not re.search(rb"(?im)^# begin: data[^\n]*\n", buf):
        buf += bytes(rest.pop(0))
    m = re.search(rb"(?im)^# begin: data ([^\n]*)\n", buf)
    if not m:
        raise ValueError("no data block")
    header_text = buf[: m.start()].decode("utf-8")
    words = m.group(1).decode().split()
    mode = words[0].lower()
    after = buf[m.end():]
    if after:
        rest.insert(0, after)
    nbytes = int(words[1]) if mode == "binary" else None
    return header_text, mode, nbytes, rest


def decode_ovf(items, version_hint=None):
    """independent reader written from the OVF 1.0 / 2.0 specification -> dict(header, n, nvdim, data[list in file order])"""
    header_text, mode, nbytes, rest = _flatten(items)
    first = header_text.splitlines()[0]
    v2 = "2.0" in first
    header = {}
    for line in header_text.splitlines():
        if not line.startswith("#"):
            continue
        body = line[1:]
        if ":" in body:
            k, v = body.split(":", 1)
            header[k.strip().lower()] = v.strip()
    nx, ny, nz = (int(header[f"{k}nodes"]) for k in "xyz")
    nv = int(header["valuedim"]) if v2 else 3
    count = nx * ny * nz * nv
    data = []
    if mode == "binary":
        fmt = ("<" if v2 else ">") + ("d" if nbytes == 8 else "f")
        # check value
        raw = b""
        while len(raw) < nbytes and rest and isinstance(rest[0], (bytes, bytearray)):
            raw += bytes(rest.pop(0))
        check, extra = raw[:nbytes], raw[nbytes:]
        if extra:
            rest.insert(0, extra)
        want = 123456789012345.0 if nbytes == 8 else 1234567.0
        if len(check) != nbytes or struct.unpack(fmt, check)[0] != want:
            raise ValueError("bad check value")
        for it in rest:
            if len(data) >= count:
                break
            if isinstance(it, stubs.SymChunk):
                if it.fmt != fmt:
                    raise ValueError(f"chunk format {it.fmt} != {fmt}")
                data.extend(it.values)
            else:
                b = bytes(it)
                usable = min(len(b) - len(b) % nbytes, (count - len(data)) * nbytes)
                data.extend(x[0] for x in struct.iter_unpack(fmt, b[:usable]))
        data = data[:count]
    else:
        text = b"".join(bytes(it) for it in rest if isinstance(it, (bytes, bytearray))).decode("utf-8")
        for line in text.splitlines():
            if line.strip().startswith("#") or not line.strip():
                continue
            data.extend(float(tok) for tok in line.split())
        data = data[:count]
    if len(data) != count:
        raise ValueError("short data block")
    return dict(header=header, n=(nx, ny, nz), nvdim=nv, data=data, v2=v2, mode=mode, nbytes=nbytes)


def encode_ovf(version, rep, geom, nv, payload, unit="A/m", labels=None, sym=False, title="m"):
    """independent writer: returns a list of items (bytes / SymChunk).  payload: flat list in file order (x fastest)"""
    (q1, q2, n) = geom
    p1 = [min(a, b) for a, b in zip(q1, q2)]  # the file states xmin <= xmax
    p2 = [max(a, b) for a, b in zip(q1, q2)]
    cell = [(p2[a] - p1[a]) / n[a] for a in range(3)]
    lines = ["# OOMMF OVF 2.0" if version == 2 else "# OOMMF: rectangular mesh v1.0", "# Segment count: 1", "# Begin: Segment", "# Begin: Header", f"# Title: {title}", "# meshtype: rectangular", "# meshunit: m"]
    for a, k in enumerate("xyz"):
        lines += [f"# {k}min: {p1[a]!r}", f"# {k}max: {p2[a]!r}", f"# {k}base: {p1[a] + cell[a] / 2!r}", f"# {k}stepsize: {cell[a]!r}", f"# {k}nodes: {n[a]}"]
    if version == 2:
        lines += [f"# valuedim: {nv}", "# valuelabels: " + " ".join(labels or [f"m_{c}" for c in "xyzuvw"[:nv]]), "# valueunits: " + " ".join([unit] * nv)]
    else:
        lines += [f"# valueunit: {unit}", "# valuemultiplier: 1.0", "# ValueRangeMinMag: 1e-8", "# ValueRangeMaxMag: 1.0"]
    lines += ["# End: Header"]
    repname = {"bin4": "Binary 4", "bin8": "Binary 8", "txt": "Text"}[rep]
    lines += [f"# Begin: Data {repname}"]
    items = [("\n".join(lines) + "\n").encode("utf-8")]
    if rep == "txt":
        rows = [" ".join(repr(float(v)) for v in payload[i:i + nv]) for i in range(0, len(payload), nv)]
        items.append(("\n".join(rows) + "\n").encode("utf-8"))
    else:
        fmt = ("<" if version == 2 else ">") + ("d" if rep == "bin8" else "f")
        items.append(struct.pack(fmt, 123456789012345.0 if rep == "bin8" else 1234567.0))
        if sym:
            items.append(stubs.SymChunk(list(payload), fmt))
        else:
            items.append(struct.pack(fmt[0] + str(len(payload)) + fmt[1], *[float(v) for v in payload]))
        items.append(b"\n")
    items.append((f"# End: Data {repname}\n# End: Segment\n").encode("utf-8"))
    return items


# ------------------------------------------------------------------------------------------------ environments
@contextlib.contextmanager
def _env(sx, native=False):
    """yields (directory-or-prefix, read_items(name), write_items(name, items))"""
    import discretisedfield.io as dio
    import discretisedfield.io.ovf as ovfmod

    if sx.sym and not native:
        with stubs.ovf_stub(ovfmod) as store, stubs.json_sidecar_stub(dio):
            yield "", (lambda name: list(store[name])), (lambda name, items: store.__setitem__(name, list(items)))
    else:
        with tempfile.TemporaryDirectory() as d:
            def rd(name):
                with open(name, "rb") as f:
                    return [f.read()]

            def wr(name, items):
                with open(name, "wb") as f:
                    for it in items:
                        f.write(bytes(it))

            yield d + os.sep, rd, wr


def _mesh(df, cfg):
    p1, p2 = cfg["box"]
    n = tuple(cfg["n"])
    pmin = [min(a, b) for a, b in zip(p1, p2)]
    e = [abs(b - a) for a, b in zip(p1, p2)]
    c = [e[a] / n[a] for a in range(3)]
    subs = {}
    for name, lo, hi in cfg.get("subregions", []):
        subs[name] = df.Region(p1=[pmin[a] + lo[a] * c[a] for a in range(3)], p2=[pmin[a] + hi[a] * c[a] for a in range(3)])
    units = [cfg.get("meshunit", "m")] * 3
    mesh = df.Mesh(region=df.Region(p1=tuple(p1), p2=tuple(p2), units=units), n=n, subregions=subs)
    return mesh, pmin, e, c


def _f32(sx, v):
    if sx.sym:
        return sx.uf("f32", v)
    return float(np.float32(v))


def h_roundtrip(sx, cfg):
    """write with the library, read with the library and with the independent decoder"""
    df = lib.load()
    n = tuple(cfg["n"])
    nv = cfg["nvdim"]
    rep = cfg["rep"]
    ext = cfg.get("extend_scalar", False)
    mesh, pmin, e, c = _mesh(df, cfg)
    arr = sx.real_array("v", (*n, nv))
    labels = LABELSETS[cfg.get("labels", "default")][nv]
    f = df.Field(mesh, nvdim=nv, value=arr, vdims=labels, unit=cfg.get("unit"))
    with _env(sx) as (prefix, read_items, write_items):
        fname = prefix + "field" + cfg.get("ext", ".omf")
        try:
            f.to_file(fname, representation=rep, extend_scalar=ext)
        except Exception as ex:  # noqa: BLE001
            sx.check("write-accepted", False, exc=f"{type(ex).__name__}: {ex}")
            return
        items = read_items(fname)
        try:
            g = df.Field.from_file(fname)
        except Exception as ex:  # noqa: BLE001
            sx.check("read-accepted", False, exc=f"{type(ex).__name__}: {ex}")
            return
    wnv = 3 if (ext and nv == 1) else nv
    tol = 0.0 if rep != "txt" else 1e-9

    def same(a, b):
        if rep == "txt":
            return sx.And(a <= b + 1e-9 * (abs(a) + abs(b)), b <= a + 1e-9 * (abs(a) + abs(b)))
        return sx.eq(a, b, scale=0.0)

    stored = (lambda v: _f32(sx, v)) if rep == "bin4" else (lambda v: v)
    # --- library reader
    r = g.mesh.region
    sx.check("corners", bool(np.allclose(r.pmin, pmin, rtol=1e-15, atol=0)) and bool(np.allclose(r.pmax, [pmin[a] + e[a] for a in range(3)], rtol=1e-15, atol=0)))
    sx.check("mesh-unit", tuple(r.units) == tuple(mesh.region.units))
    sx.check("n", tuple(int(x) for x in g.mesh.n) == n)
    sx.check("nvdim", g.nvdim == wnv)
    sx.check("unit", g.unit == f.unit, got=repr(g.unit), want=repr(f.unit))
    if nv > 1:
        sx.check("labels", list(g.vdims) == list(f.vdims), got=repr(g.vdims), want=repr(f.vdims))
    sx.check("subregion-names", list(g.mesh.subregions) == list(mesh.subregions))
    for name in mesh.subregions:
        if name in g.mesh.subregions:
            sx.check(f"subregion-{name}", bool(np.allclose(g.mesh.subregions[name].pmin, mesh.subregions[name].pmin, rtol=1e-15, atol=0)) and bool(np.allclose(g.mesh.subregions[name].pmax, mesh.subregions[name].pmax, rtol=1e-15, atol=0)))
    ok = tuple(np.shape(g.array)) == (*n, wnv)
    sx.check("shape", ok)
    if ok:
        for idx in np.ndindex(*n):
            for k in range(wnv):
                want = stored(arr[idx + (k,)]) if k < nv else 0.0
                sx.check(f"value{idx}[{k}]", same(g.array[idx + (k,)], want))
    # --- independent decoder on what the library wrote
    try:
        dec = decode_ovf(items)
    except Exception as ex:  # noqa: BLE001
        sx.check("independent-decoder-accepts", False, exc=f"{type(ex).__name__}: {ex}")
        return
    sx.check("independent-decoder-accepts", dec["v2"] and dec["mode"] == ("text" if rep == "txt" else "binary") and dec["nbytes"] == {"bin8": 8, "bin4": 4, "txt": None}[rep])
    h = dec["header"]
    sx.check("decoded-nodes-valuedim", dec["n"] == n and dec["nvdim"] == wnv)
    geo_ok = True
    for a, k in enumerate("xyz"):
        geo_ok = geo_ok and abs(float(h[f"{k}min"]) - pmin[a]) <= 1e-15 * abs(pmin[a]) and abs(float(h[f"{k}max"]) - (pmin[a] + e[a])) <= 1e-15 * abs(pmin[a] + e[a])
        geo_ok = geo_ok and abs(float(h[f"{k}stepsize"]) - c[a]) <= 1e-12 * c[a] and abs(float(h[f"{k}base"]) - (pmin[a] + c[a] / 2)) <= 1e-12 * (abs(pmin[a]) + c[a])
    sx.check("decoded-geometry", bool(geo_ok))
    sx.check("decoded-meshunit", h.get("meshunit") == mesh.region.units[0] and h.get("meshtype") == "rectangular")
    sx.check("decoded-labels-units-count", len(h.get("valuelabels", "").split()) == wnv and len(h.get("valueunits", "").split()) == wnv)
    for idx in np.ndindex(*n):
        x, y, z = idx
        pos = x + n[0] * (y + n[1] * z)
        for k in range(wnv):
            want = stored(arr[idx + (k,)]) if k < nv else 0.0
            sx.check(f"x-fastest{idx}[{k}]", same(dec["data"][pos * wnv + k], want))


def h_special_values(sx, cfg):
    """non-finite and signed-zero values (concrete, native files): bit-identical through bin8, float32-rounded through bin4,
    NaN where NaN was; the padding components of an extended scalar are exactly zero"""
    df = lib.load()
    with sx.native():
        import tempfile

        n = tuple(cfg["n"])
        nv = cfg["nvdim"]
        mesh, pmin, e, c = _mesh(df, cfg)
        special = [np.inf, -np.inf, np.nan, -0.0, 5e-324, 1.7976931348623157e308, 1.5, -2.25]
        vals = np.empty((*n, nv))
        for t, idx in enumerate(np.ndindex(*n)):
            for k in range(nv):
                vals[idx + (k,)] = special[(t + 3 * k) % len(special)]
        f = df.Field(mesh, nvdim=nv, value=vals)
        with tempfile.TemporaryDirectory() as d, np.errstate(all="ignore"):
            for rep in ("bin8", "bin4"):
                for ext in ((False, True) if nv == 1 else (False,)):
                    fname = f"{d}/s_{rep}_{int(ext)}.omf"
                    f.to_file(fname, representation=rep, extend_scalar=ext)
                    g = df.Field.from_file(fname)
                    wnv = 3 if ext else nv
                    ok = g.array.shape == (*n, wnv)
                    sx.check(f"shape-{rep}-ext{int(ext)}", ok)
                    if not ok:
                        continue
                    want = vals if rep == "bin8" else vals.astype(np.float32).astype(float)
                    got = g.array[..., :nv]
                    same = (np.isnan(got) == np.isnan(want)) & (np.isnan(want) | ((got == want) & (np.signbit(got) == np.signbit(want))))
                    sx.check(f"values-{rep}-ext{int(ext)}", bool(same.all()), got=str(got.ravel()[:8]))
                    if ext:
                        sx.check(f"padding-is-zero-{rep}", bool(np.all(g.array[..., 1:] == 0.0)), got=str(g.array[..., 1:].ravel()[:8]))


def h_two_files(sx, cfg):
    """several OVF files with the same stem in one directory keep their own subregions (side-car per file name)"""
    df = lib.load()
    n = tuple(cfg["n"])
    mesh_a, pmin, e, c = _mesh(df, dict(cfg, subregions=cfg["subs_a"]))
    mesh_b, _, _, _ = _mesh(df, dict(cfg, subregions=cfg["subs_b"]))
    va = sx.real_array("a", (*n, 1))
    vb = sx.real_array("b", (*n, 3))
    fa = df.Field(mesh_a, nvdim=1, value=va)
    fb = df.Field(mesh_b, nvdim=3, value=vb)
    with _env(sx) as (prefix, read_items, write_items):
        na, nb = prefix + "state.omf", prefix + "state.ohf"
        fa.to_file(na)
        fb.to_file(nb)
        ga = df.Field.from_file(na)
        gb = df.Field.from_file(nb)
    for tag, g, m in (("first", ga, mesh_a), ("second", gb, mesh_b)):
        sx.check(f"{tag}-subregion-names", list(g.mesh.subregions) == list(m.subregions))
        for name in m.subregions:
            if name in g.mesh.subregions:
                sx.check(f"{tag}-subregion-{name}", bool(np.allclose(g.mesh.subregions[name].pmin, m.subregions[name].pmin, rtol=1e-15, atol=0))
                         and bool(np.allclose(g.mesh.subregions[name].pmax, m.subregions[name].pmax, rtol=1e-15, atol=0)))
    sx.check("values-first", sx.eq(ga.array, va, scale=0.0))
    sx.check("values-second", sx.eq(gb.array, vb, scale=0.0))


def h_foreign(sx, cfg):
    """files from an independent OVF 1.0 / 2.0 writer are read to that writer's content"""
    df = lib.load()
    n = tuple(cfg["n"])
    version, rep = cfg["version"], cfg["rep"]
    nv = 3 if version == 1 else cfg["nvdim"]
    p1, p2 = cfg["box"]
    count = n[0] * n[1] * n[2] * nv
    if rep == "txt":
        # text cannot carry symbolic numbers: fixed payload (incl. tiny, huge, negative zero, non-terminating decimals), native execution
        with sx.native():
            rng = np.random.default_rng(count)
            pl = list(rng.normal(size=count) * 10.0 ** rng.integers(-300, 300, size=count))
            pl[0:3] = [0.1, -1 / 3, 1e-310][: min(3, count)]
            _foreign_body(sx, df, cfg, n, version, rep, nv, p1, p2, pl, False)
        return
    payload = [sx.real(f"d{i}") for i in range(count)]
    _foreign_body(sx, df, cfg, n, version, rep, nv, p1, p2, payload, sx.sym)


def _foreign_body(sx, df, cfg, n, version, rep, nv, p1, p2, payload, sym):
    if rep == "bin4" and not sym:
        payload_stored = [float(np.float32(v)) for v in payload]
    else:
        payload_stored = payload
    labels = cfg.get("labels")
    with _env(sx, native=not sym) as (prefix, read_items, write_items):
        fname = prefix + "foreign" + cfg.get("ext", ".ovf")
        write_items(fname, encode_ovf(version, rep, (p1, p2, n), nv, payload, unit=cfg.get("unit", "A/m"), labels=labels, sym=sym))
        try:
            g = df.Field.from_file(fname)
        except Exception as ex:  # noqa: BLE001
            sx.check("foreign-file-read", False, exc=f"{type(ex).__name__}: {ex}")
            return
    sx.check("foreign-file-read", True)
    sx.check("n-nvdim", tuple(int(x) for x in g.mesh.n) == n and g.nvdim == nv)
    sx.check("corners", bool(np.allclose(g.mesh.region.pmin, [min(a, b) for a, b in zip(p1, p2)], rtol=1e-15, atol=0)) and bool(np.allclose(g.mesh.region.pmax, [max(a, b) for a, b in zip(p1, p2)], rtol=1e-15, atol=0)))
    if version == 2:
        sx.check("unit", g.unit == cfg.get("unit", "A/m"))
    for idx in np.ndindex(*n):
        x, y, z = idx
        pos = x + n[0] * (y + n[1] * z)
        for k in range(nv):
            want = payload_stored[pos * nv + k]
            if rep == "txt":
                got = g.array[idx + (k,)]
                sx.check(f"value{idx}[{k}]", sx.And(got <= want + 1e-9 * (abs(got) + abs(want)), want <= got + 1e-9 * (abs(got) + abs(want))))
            else:
                sx.check(f"value{idx}[{k}]", sx.eq(g.array[idx + (k,)], want, scale=0.0))


def h_check_value_lemma(sx, cfg):
    """no other bit pattern compares equal to the check value (IEEE equality as used by Python's != on floats)"""
    import z3

    from symx import core

    for width, val, eb, sb in ((64, 123456789012345.0, 11, 53), (32, 1234567.0, 8, 24)):
        bits = int.from_bytes(struct.pack(">d" if width == 64 else ">f", val), "big")
        b = z3.BitVec(f"b{width}", width)
        x = z3.fpBVToFP(b, z3.FPSort(eb, sb))
        c = z3.fpBVToFP(z3.BitVecVal(bits, width), z3.FPSort(eb, sb))
        r, _ = core.fresh_check([b != z3.BitVecVal(bits, width), z3.fpEQ(x, c)], 60000)
        sx.check(f"only-one-pattern-equals-check-{width}", r == "unsat", result=r)
        # reachability twin: the check pattern itself does compare equal
        r2, _ = core.fresh_check([b == z3.BitVecVal(bits, width), z3.fpEQ(x, c)], 60000)
        sx.check(f"twin-check-pattern-accepted-{width}", r2 == "sat", result=r2)


def h_corrupt(sx, cfg):
    """binary files with a wrong check value or a short data block are rejected (native sweep over the file bytes)"""
    df = lib.load()
    with sx.native():
        n = tuple(cfg["n"])
        nv = cfg["nvdim"]
        rep = cfg["rep"]
        mesh, pmin, e, c = _mesh(df, cfg)
        rng = np.random.default_rng(11)
        f = df.Field(mesh, nvdim=nv, value=rng.normal(size=(*n, nv)) * 1e3, unit="A/m")
        width = 8 if rep == "bin8" else 4
        with tempfile.TemporaryDirectory() as d:
            good = os.path.join(d, "good.omf")
            f.to_file(good, representation=rep)
            blob = open(good, "rb").read()
            m = re.search(rb"# Begin: Data Binary \d\n", blob)
            start = m.end()
            data_end = start + width + width * n[0] * n[1] * n[2] * nv
            back = df.Field.from_file(good)
            want = f.array if rep == "bin8" else f.array.astype(np.float32).astype(np.float64)
            sx.check("layout-as-expected", blob[data_end:data_end + 1] == b"\n" and bool(np.array_equal(back.array, want)))
            bad = os.path.join(d, "bad.omf")

            def rejected(contents):
                with open(bad, "wb") as fh:
                    fh.write(contents)
                try:
                    df.Field.from_file(bad)
                except Exception:  # noqa: BLE001
                    return True
                return False

            accepted = []
            for bit in range(8 * width):
                mod = bytearray(blob)
                mod[start + bit // 8] ^= 1 << (bit % 8)
                if not rejected(bytes(mod)):
                    accepted.append(("bit", bit))
            for byte in range(width):
                for delta in (1, 255):
                    mod = bytearray(blob)
                    mod[start + byte] = (mod[start + byte] + delta) % 256
                    if not rejected(bytes(mod)):
                        accepted.append(("byte", byte, delta))
            sx.check("every-check-value-corruption-rejected", not accepted, accepted=str(accepted[:6]))
            short_ok = []
            for cut in range(start, data_end):
                # the file ends after `cut` bytes (every truncation point inside the check value and the data block)
                if not rejected(blob[:cut]):
                    short_ok.append(cut - start)
            sx.check("every-truncation-of-the-data-block-rejected", not short_ok, accepted=str(short_ok[:6]))


def h_text_and_samples(sx, cfg):
    """text representation round trip (1e-9 relative) and the repository's sample files against the independent decoder (native)"""
    df = lib.load()
    with sx.native():
        n = tuple(cfg["n"])
        nv = cfg["nvdim"]
        mesh, pmin, e, c = _mesh(df, cfg)
        rng = np.random.default_rng(5)
        vals = rng.normal(size=(*n, nv)) * np.array([1e-300, 1.0, 1e300, 1e-5, 3.0][:nv])
        vals[(0,) * 3] = [0.1, -1 / 3, 1e-320, 123456789.123456789, -0.0][:nv]
        for ext in (False, True):
            if ext and nv != 1:
                continue
            f = df.Field(mesh, nvdim=nv, value=vals, unit=cfg.get("unit"), vdims=LABELSETS[cfg.get("labels", "default")][nv])
            with tempfile.TemporaryDirectory() as d:
                fn = os.path.join(d, "t.ovf")
                f.to_file(fn, representation="txt", extend_scalar=ext)
                g = df.Field.from_file(fn)
                dec = decode_ovf([open(fn, "rb").read()])
            w = 3 if ext else nv
            sx.check(f"txt-shape-ext={ext}", g.array.shape == (*n, w) and dec["nvdim"] == w and dec["n"] == n)
            sx.check(f"txt-values-ext={ext}", bool(np.allclose(g.array[..., :nv], vals, rtol=1e-9, atol=0)))
            sx.check(f"txt-unit-ext={ext}", g.unit == f.unit)
            flat = np.array(dec["data"]).reshape(n[2], n[1], n[0], w).transpose(2, 1, 0, 3)
            sx.check(f"txt-independent-decoder-ext={ext}", bool(np.allclose(flat[..., :nv], vals, rtol=1e-9, atol=0)))
        sample_dir = os.path.join(lib.REPO_ROOT, "discretisedfield", "tests", "test_sample")
        for path in sorted(glob.glob(os.path.join(sample_dir, "*.o?f"))):
            name = os.path.basename(path)
            if name.startswith(("demag", "skyrmion")):
                continue
            g = df.Field.from_file(path)
            dec = decode_ovf([open(path, "rb").read()])
            nn = dec["n"]
            flat = np.array(dec["data"]).reshape(nn[2], nn[1], nn[0], dec["nvdim"]).transpose(2, 1, 0, 3)
            same = bool(np.array_equal(g.array, flat)) if dec["mode"] == "binary" else bool(np.allclose(g.array, flat, rtol=1e-9, atol=0))
            sx.check(f"sample-{name}", tuple(int(x) for x in g.mesh.n) == nn and g.nvdim == dec["nvdim"] and same)


def tasks(tier):
    q = tier == "quick"
    t = []
    big = dict(timeout_ms=60000, wall_budget=1200)
    geos = [dict(n=[2, 1, 1], box=[[0, 0, 0], [4, 1, 1]]), dict(n=[2, 3, 2], box=[[-5e-9, 0.0, 1e-9], [5e-9, 6e-9, 3e-9]], meshunit="nm"),
            dict(n=[1, 2, 3], box=[[1.5, 2.5, -0.75], [0.25, 1.0, 0.75]])]
    if not q:
        geos += [dict(n=[3, 2, 2], box=[[0.1, 0.2, 0.3], [0.7, 0.8, 1.1]]), dict(n=[1, 1, 4], box=[[0, 0, 0], [1e6, 2e6, 4e6]], meshunit="km")]
    subs = {(2, 1, 1): [("left", [0, 0, 0], [1, 1, 1]), ("right", [1, 0, 0], [2, 1, 1])], (2, 3, 2): [("zz", [0, 0, 0], [2, 2, 1]), ("aa", [1, 1, 1], [2, 3, 2])]}
    i = 0
    for g in geos:
        for nv in ((1, 2, 3, 4) if q else (1, 2, 3, 4, 5)):
            for rep in ("bin8", "bin4"):
                i += 1
                labels = ("default", "custom", "underscore", "digits")[i % 4]
                if LABELSETS[labels].get(nv) is None and labels != "default":
                    labels = "custom" if nv > 1 else "default"
                cfg = dict(g, nvdim=nv, rep=rep, unit=(None, "A/m", "T")[i % 3], labels=labels, ext=(".omf", ".ovf", ".ohf")[i % 3],
                           subregions=subs.get(tuple(g["n"]), []) if i % 2 else [], extend_scalar=bool(nv == 1 and i % 2))
                if q and nv in (2, 4) and rep == "bin4" and tuple(g["n"]) != (2, 1, 1):
                    continue
                t.append(dict(harness="h_roundtrip", cfg=cfg, limits=big))
    for g in geos:
        for version, rep in ((1, "bin4"), (1, "bin8"), (2, "bin4"), (2, "bin8"), (1, "txt"), (2, "txt")):
            for nv in ((1, 3) if version == 2 else (3,)):
                t.append(dict(harness="h_foreign", cfg=dict(n=g["n"], box=[[float(v) for v in g["box"][0]], [float(v) for v in g["box"][1]]], version=version, rep=rep, nvdim=nv,
                                                            ext=(".ovf", ".omf")[version % 2]), limits=big))
    # non-ASCII unit symbols (mesh unit and field unit)
    t.append(dict(harness="h_roundtrip", cfg=dict(geos[0], nvdim=3, rep="bin8", unit="\u00b5T", labels="default", ext=".omf", meshunit="\u00b5m"), limits=big))
    t.append(dict(harness="h_roundtrip", cfg=dict(geos[1], nvdim=1, rep="bin4", unit="\u03a9", labels="default", ext=".ovf", meshunit="\u00c5"), limits=big))
    t.append(dict(harness="h_text_and_samples", cfg=dict(geos[0], nvdim=2, unit="\u00b0C", labels="custom", meshunit="\u00b5m")))
    for g, nv in ((geos[0], 1), (geos[1], 1), (geos[2], 3)):
        t.append(dict(harness="h_special_values", cfg=dict(g, nvdim=nv)))
    t.append(dict(harness="h_check_value_lemma", cfg={}))
    t.append(dict(harness="h_two_files", cfg=dict(geos[0], subs_a=subs[(2, 1, 1)], subs_b=[]), limits=big))
    t.append(dict(harness="h_two_files", cfg=dict(geos[1], subs_a=subs[(2, 3, 2)][:1], subs_b=subs[(2, 3, 2)][1:]), limits=big))
    for g in geos[:2]:
        for rep in ("bin8", "bin4"):
            t.append(dict(harness="h_corrupt", cfg=dict(g, nvdim=3 if rep == "bin8" else 1, rep=rep)))
    for g, nv, unit, lab in ((geos[0], 1, None, "default"), (geos[1], 3, "A/m", "custom"), (geos[2], 4, "T", "digits")):
        t.append(dict(harness="h_text_and_samples", cfg=dict(g, nvdim=nv, unit=unit, labels=lab)))
    return t
