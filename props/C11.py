"""C11 -- field FFTs are the discrete Fourier transform at the k-mesh's frequencies (DESIGN 2/C11)."""
from __future__ import annotations

import contextlib
import itertools

import numpy as np

from symx import lib, stubs

from .common import DIMSETS, sym_mesh

META = dict(
    bounds=dict(
        quick=dict(also="axis names starting with k_; components mapped to axes outside the mesh; explicitly real-typed fields",
                   ndim="1..3", n="each axis in {1,2,3,4,6} (mixes of even, odd, single-cell)", nvdim="1..3", labels="default / custom (incl. labels starting with f, t, _) / none",
                   transforms="fftn, ifftn, rfftn, irfftn with and without shape"),
        thorough=dict(ndim="1..4", n="each axis in {1,2,3,4,6}", nvdim="1..3", labels="as quick", transforms="as quick"),
    ),
    stubs=["scipy.fft.fftn/ifftn/rfftn/irfftn: the exact DFT over the reals for axis lengths 1,2,3,4,6 (roots of unity: rationals, i, sqrt(3) with the exact "
           "square-root encoding), natural bin order, rfftn = bins 0..n//2 of the last axis, irfftn = real inverse of the Hermitian completion; "
           "fftfreq/rfftfreq/fftshift/ifftshift are the real SciPy code; native replays use the real scipy.fft throughout"],
    assumptions=["REAL theory", "SciPy's documented bin order and normalisation (stub contract)"],
    outside=["axis lengths other than 1,2,3,4,6 (5, 7, 8 ... need roots of unity of higher algebraic degree)", "scipy keyword arguments (norm=, workers=)", "binary64 rounding of the transform"],
)

LABELS = {"default": {1: None, 2: None, 3: None}, "custom": {1: ["s"], 2: ["a", "b"], 3: ["mx", "my", "mz"]}, "tricky": {1: ["theta"], 2: ["fx", "ty"], 3: ["fx", "_y", "tz"]}}


@contextlib.contextmanager
def _fft(sx):
    """symbolic runs: exact-DFT stub in discretisedfield.field; native runs: the real scipy.fft"""
    import discretisedfield.field as dff

    if not sx.sym:
        yield None
        return
    old = dff.spfft
    stub = stubs.ExactFFT(old)
    dff.spfft = stub
    try:
        yield stub
    finally:
        dff.spfft = old


def _tw(p, n, sign=-1):
    """exp(sign*2*pi*i*p/n): exact in symbolic runs, floating point natively"""
    return stubs.ExactFFT(None).twiddle(n, p, sign)


def _tw_any(sx, p, n, sign=-1):
    if sx.sym:
        return _tw(p, n, sign)
    import cmath

    z = cmath.exp(sign * 2j * cmath.pi * (p % n) / n)
    return z.real, z.imag


def _parts(z):
    if hasattr(z, "re"):
        return z.re, z.im
    if isinstance(z, complex) or isinstance(z, np.complexfloating):
        return z.real, z.imag
    return z, 0.0


def _freq_index(n_a, J, rlast):
    """integer frequency m (k = m/(n*cell)) of k-cell J along an axis of n_a real-space samples"""
    if rlast:
        return J
    return J - n_a // 2


def _setup(sx, cfg, complex_values=False):
    df = lib.load()
    n = tuple(cfg["n"])
    nd = len(n)
    nv = cfg["nvdim"]
    dims = DIMSETS[cfg.get("dims", "default")][nd]
    units = ["nm", "um", "mm", "km"][:nd] if cfg.get("units") else None
    mesh, pmin, e = sym_mesh(sx, n, dims=dims, units=units, flip=False)
    labels = LABELS[cfg.get("labels", "default")][nv]
    mapping = None
    if cfg.get("mapping") == "permuted" and nv == nd and nv > 1:
        names = labels or ["x", "y", "z"][:nv]
        mapping = dict(zip(names, list(dims[1:]) + [dims[0]]))
    elif cfg.get("mapping") == "none":
        mapping = {}
    elif cfg.get("mapping") == "offmesh" and nv > nd:
        # more components than axes (e.g. a plane cut out of a 3-d vector field): the extra ones map to axes that are not in the mesh
        names = labels or ["x", "y", "z"][:nv]
        mapping = dict(zip(names, list(dims) + ["out", "k_far"][: nv - nd]))
    re = sx.real_array("v", (*n, nv))
    if complex_values:
        im = sx.real_array("w", (*n, nv))
        if sx.sym:
            from symx.sarray import symarray

            val = symarray([x + y * 1j for x, y in zip(re.flat, im.flat)]).reshape(re.shape)
        else:
            val = re + 1j * im
    else:
        im = None
        val = re
    f = df.Field(mesh, nvdim=nv, value=val, vdims=labels, vdim_mapping=mapping, unit="A/m", dtype=(float if cfg.get("dtype") == "float" and not complex_values else None) if sx.sym or not complex_values else complex)
    return df, f, mesh, pmin, e, n, nd, nv, dims, re, im, labels


def _check_kmesh(sx, km, mesh, n, e, dims, rfft, tag):
    nd = len(n)
    kn = tuple(int(x) for x in km.n)
    want_n = tuple((n[a] // 2 + 1) if (rfft and a == nd - 1 and n[a] > 1) else n[a] for a in range(nd))
    sx.check(f"{tag}-n", kn == want_n)
    sx.check(f"{tag}-dims", tuple(km.region.dims) == tuple(f"k_{d}" for d in dims))
    sx.check(f"{tag}-units", tuple(km.region.units) == tuple(f"({u})" + "$^{-1}$" for u in mesh.region.units))
    if kn != want_n:
        return False
    for a in range(nd):
        c = e[a] / n[a]
        rl = rfft and a == nd - 1 and n[a] > 1
        for J in range(kn[a]):
            idx = [0] * nd
            idx[a] = J
            centre = km.index2point(tuple(idx))[a]
            m = _freq_index(n[a], J, rl)
            # shifted DFT sample frequency m/(n*cell)
            sx.check(f"{tag}-centre[{a}][{J}]", sx.eq(centre * (n[a] * c), float(m)))
        sx.check(f"{tag}-cell[{a}]", sx.eq(km.cell[a] * (n[a] * c), 1.0))
    return True


def _dft_expected(sx, n, nv, re, im, ms, comp):
    """sum_r f[r] * exp(-2 pi i sum_a m_a r_a / n_a) for component comp -> (re, im)"""
    er, ei = 0.0, 0.0
    for r in np.ndindex(*n):
        wr, wi = 1.0, 0.0
        for a in range(len(n)):
            tr, ti = _tw_any(sx, ms[a] * r[a], n[a], -1)
            wr, wi = wr * tr - wi * ti, wr * ti + wi * tr
        xr = re[r + (comp,)]
        xi = im[r + (comp,)] if im is not None else 0.0
        er = er + (xr * wr - xi * wi)
        ei = ei + (xr * wi + xi * wr)
    return er, ei


def h_forward(sx, cfg):
    """fftn / rfftn: k-mesh geometry, DFT value in every k-cell at that cell's frequency, zero-frequency cell = plain sum, labels"""
    df, f, mesh, pmin, e, n, nd, nv, dims, re, im, labels = _setup(sx, cfg, complex_values=cfg.get("complex", False))
    rfft = cfg["kind"] == "rfftn"
    with _fft(sx):
        g = f.rfftn() if rfft else f.fftn()
    ok = _check_kmesh(sx, g.mesh, mesh, n, e, dims, rfft, "kmesh")
    kmesh_only = rfft and f.mesh.fftn(rfft=True)
    if kmesh_only is not False and kmesh_only is not None:
        sx.check("mesh-method-agrees", tuple(int(x) for x in kmesh_only.n) == tuple(int(x) for x in g.mesh.n))
    sx.check("meta", g.nvdim == nv and g.unit == f.unit)
    want_labels = None if f.vdims is None else [f"ft_{l}" for l in f.vdims]
    sx.check("labels", (None if g.vdims is None else list(g.vdims)) == want_labels)
    if f.vdims is not None:
        sx.check("mapping", dict(g.vdim_mapping) == {f"ft_{k}": f"k_{v}" for k, v in f.vdim_mapping.items()})
    if not ok:
        return
    kn = tuple(int(x) for x in g.mesh.n)
    sx.check("array-shape", tuple(np.shape(g.array)) == (*kn, nv))
    for J in np.ndindex(*kn):
        ms = [_freq_index(n[a], J[a], rfft and a == nd - 1 and n[a] > 1) for a in range(nd)]
        for comp in range(nv):
            er, ei = _dft_expected(sx, n, nv, re, im, ms, comp)
            gr, gi = _parts(g.array[J + (comp,)])
            sx.check(f"dft{J}[{comp}]", sx.And(sx.eq(gr, er), sx.eq(gi, ei)))
            if all(m == 0 for m in ms):
                tot_r = 0.0
                tot_i = 0.0
                for r in np.ndindex(*n):
                    tot_r = tot_r + re[r + (comp,)]
                    if im is not None:
                        tot_i = tot_i + im[r + (comp,)]
                sx.check(f"zero-frequency-is-sum[{comp}]", sx.And(sx.eq(gr, tot_r), sx.eq(gi, tot_i)))
    sx.check("source-untouched", tuple(int(x) for x in f.mesh.n) == n)
    # the transformed field itself keeps its values (a transform must not consume its operand) ...
    for idx in np.ndindex(*n):
        for comp in range(nv):
            fr, fi = _parts(f.array[idx + (comp,)])
            sx.check(f"operand-values-kept{idx}[{comp}]", sx.And(sx.eq(fr, re[idx + (comp,)]), sx.eq(fi, im[idx + (comp,)] if im is not None else 0.0)))
    # ... and a later transform follows the mesh as it is then (history: transform, rescale the mesh in place, transform again)
    s_ = 2.0
    f.mesh.scale(s_, inplace=True)
    with _fft(sx):
        g2 = f.rfftn() if rfft else f.fftn()
    _check_kmesh(sx, g2.mesh, f.mesh, n, [x * s_ for x in e], dims, rfft, "kmesh-after-inplace-rescale")


def h_inverse(sx, cfg):
    """ifftn(fftn(f)) and irfftn(rfftn(f), shape) reproduce f on a mesh of the original cell size and counts centred at the origin"""
    df, f, mesh, pmin, e, n, nd, nv, dims, re, im, labels = _setup(sx, cfg, complex_values=cfg.get("complex", False))
    kind = cfg["kind"]
    with _fft(sx):
        if kind == "ifftn":
            g = f.fftn().ifftn()
        elif kind == "irfftn-shape":
            g = f.rfftn().irfftn(shape=n if cfg.get("shape_as") != "list" else list(n))
        else:
            try:
                kf = f.rfftn()
                kn_before = tuple(int(x) for x in kf.mesh.n)
                g = kf.irfftn()
                # the k-space field is an operand: an inverse without shape must not alter it or its mesh
                sx.check("k-field-mesh-untouched-by-inverse", tuple(int(x) for x in kf.mesh.n) == kn_before and tuple(np.shape(kf.array))[:-1] == kn_before)
                g_again = kf.irfftn(shape=n)
                sx.check("k-field-still-usable-with-shape", tuple(int(x) for x in g_again.mesh.n) == n)
            except ValueError:
                # without the original last-axis count an odd (or single-cell) last axis cannot be recovered
                sx.check("refused-only-when-last-axis-not-recoverable", n[-1] % 2 == 1)
                return
    last_default = 2 * (n[-1] // 2) if n[-1] > 1 else 1
    want_n = n if kind != "irfftn" else tuple(list(n[:-1]) + [last_default])
    gn = tuple(int(x) for x in g.mesh.n)
    sx.check("n", gn == tuple(want_n))
    if kind == "irfftn" and tuple(want_n) != n:
        # without the original last-axis count an odd size cannot be recovered: the result lives on the even-sized mesh
        # (2*(m-1) cells); nothing further is promised for it
        return
    sx.check("dims-units", tuple(g.mesh.region.dims) == tuple(dims) and tuple(g.mesh.region.units) == tuple(mesh.region.units))
    for a in range(nd):
        c = e[a] / n[a]
        sx.check(f"cell[{a}]", sx.eq(g.mesh.cell[a], c))
        sx.check(f"centred[{a}]", sx.eq(g.mesh.region.pmin[a] + g.mesh.region.pmax[a], 0.0))
    sx.check("labels", (None if g.vdims is None else list(g.vdims)) == (None if f.vdims is None else list(f.vdims)))
    sx.check("mapping", dict(g.vdim_mapping) == dict(f.vdim_mapping))
    sx.check("meta", g.nvdim == nv and g.unit == f.unit)
    if gn == n:
        for idx in np.ndindex(*n):
            for comp in range(nv):
                gr, gi = _parts(g.array[idx + (comp,)])
                sx.check(f"value{idx}[{comp}]", sx.And(sx.eq(gr, re[idx + (comp,)]), sx.eq(gi, im[idx + (comp,)] if im is not None else 0.0)))


def h_rfft_half(sx, cfg):
    """the real transform equals the matching half of the full one, cell by cell (matched through the k coordinates)"""
    df, f, mesh, pmin, e, n, nd, nv, dims, re, im, labels = _setup(sx, cfg)
    with _fft(sx):
        full = f.fftn()
        half = f.rfftn()
    hn = tuple(int(x) for x in half.mesh.n)
    for J in np.ndindex(*hn):
        # same frequency in the full transform: last axis index J + n//2 (shifted order), others identical
        K = list(J)
        if n[-1] > 1:
            K[-1] = J[-1] + n[-1] // 2
        K = tuple(K)
        if K[-1] >= n[-1]:
            # the Nyquist bin of an even axis sits at the most negative frequency of the shifted full transform
            K = tuple(list(J[:-1]) + [0])
        for a in range(nd):
            kc_h = half.mesh.index2point(J)[a]
            kc_f = full.mesh.index2point(K)[a]
            if a == nd - 1 and n[-1] > 1 and J[-1] + n[-1] // 2 >= n[-1]:
                sx.check(f"nyquist-same-frequency-up-to-sign{J}", sx.eq(kc_h, -kc_f))
            else:
                sx.check(f"same-frequency{J}[{a}]", sx.eq(kc_h, kc_f))
        for comp in range(nv):
            hr, hi = _parts(half.array[J + (comp,)])
            fr, fi = _parts(full.array[K + (comp,)])
            sx.check(f"same-value{J}[{comp}]", sx.And(sx.eq(hr, fr), sx.eq(hi, fi)))


def h_linear(sx, cfg):
    df, f, mesh, pmin, e, n, nd, nv, dims, re, im, labels = _setup(sx, cfg)
    w = sx.real_array("u", (*n, nv))
    g = df.Field(mesh, nvdim=nv, value=w, vdims=labels)
    al, be = sx.real("alpha"), sx.real("beta")
    with _fft(sx):
        lhs = (al * f + be * g).fftn() if cfg["kind"] == "fftn" else (al * f + be * g).rfftn()
        a1 = f.fftn() if cfg["kind"] == "fftn" else f.rfftn()
        a2 = g.fftn() if cfg["kind"] == "fftn" else g.rfftn()
    for J in np.ndindex(*np.shape(lhs.array)):
        lr, li = _parts(lhs.array[J])
        xr, xi = _parts(a1.array[J])
        yr, yi = _parts(a2.array[J])
        sx.check(f"linear{J}", sx.And(sx.eq(lr, al * xr + be * yr), sx.eq(li, al * xi + be * yi)))


def h_mesh_only(sx, cfg):
    """Mesh.fftn / Mesh.ifftn geometry and refusals for symbolic cell counts beyond the DFT stub's reach (no values involved)"""
    df = lib.load()
    n = tuple(cfg["n"])
    nd = len(n)
    dims = DIMSETS[cfg.get("dims", "default")][nd]
    mesh, pmin, e = sym_mesh(sx, n, dims=dims, flip=False)
    for rfft in (False, True):
        km = mesh.fftn(rfft=rfft)
        ok = _check_kmesh(sx, km, mesh, n, e, dims, rfft, f"kmesh-rfft={rfft}")
        if not ok:
            continue
        back = km.ifftn(rfft=rfft, shape=n) if rfft else km.ifftn()
        sx.check(f"back-n-rfft={rfft}", tuple(int(x) for x in back.n) == n)
        for a in range(nd):
            sx.check(f"back-cell-rfft={rfft}[{a}]", sx.eq(back.cell[a], e[a] / n[a]))
            sx.check(f"back-centred-rfft={rfft}[{a}]", sx.eq(back.region.pmin[a] + back.region.pmax[a], 0.0))
        sx.check(f"back-dims-rfft={rfft}", tuple(back.region.dims) == tuple(dims) and tuple(back.region.units) == tuple(mesh.region.units))
        if rfft:
            bad = list(n)
            bad[-1] = n[-1] + 2
            for name, shp, exc in (("wrong-last", tuple(bad), ValueError), ("wrong-length", tuple(n) + (2,), ValueError), ("wrong-type", "abc", TypeError)):
                try:
                    km.ifftn(rfft=True, shape=shp)
                except exc:
                    sx.check(f"shape-{name}-refused", True)
                except Exception as ex:  # noqa: BLE001
                    sx.check(f"shape-{name}-refused", False, exc=f"{type(ex).__name__}: {ex}")
                else:
                    sx.check(f"shape-{name}-refused", False, exc="accepted")
            if nd > 1:
                bad2 = list(n)
                bad2[0] = n[0] + 1
                try:
                    km.ifftn(rfft=True, shape=tuple(bad2))
                except ValueError:
                    sx.check("shape-wrong-leading-refused", True)
                else:
                    sx.check("shape-wrong-leading-refused", False)


def tasks(tier):
    q = tier == "quick"
    t = []
    big = dict(timeout_ms=90000, wall_budget=1500)
    shapes = [((4,), 1), ((3,), 2), ((1,), 1), ((6,), 1), ((2, 3), 2), ((3, 1), 1), ((4, 2), 1), ((1, 3), 2), ((3, 3), 2), ((2, 1, 3), 3), ((1, 2, 2), 1), ((2, 2, 1), 1)]
    if not q:
        shapes += [((2,), 3), ((4, 4), 1), ((6, 2), 1), ((3, 2, 2), 3), ((2, 3, 4), 1), ((2, 1, 2, 3), 1), ((1, 2, 1, 2), 2)]
    for i, (n, nv) in enumerate(shapes):
        lab = ("default", "custom", "tricky")[i % 3]
        mp = ("default", "permuted", "none")[i % 3]
        base = dict(n=list(n), nvdim=nv, labels=lab, mapping=mp, dims="renamed" if i % 2 else "default", units=bool(i % 2))
        t.append(dict(harness="h_forward", cfg=dict(base, kind="fftn", complex=bool(i % 2)), limits=big))
        t.append(dict(harness="h_forward", cfg=dict(base, kind="rfftn"), limits=big))
        t.append(dict(harness="h_inverse", cfg=dict(base, kind="ifftn", complex=bool(i % 2 == 0)), limits=big))
        t.append(dict(harness="h_inverse", cfg=dict(base, kind="irfftn-shape", shape_as="list" if i % 2 else "tuple"), limits=big))
        t.append(dict(harness="h_inverse", cfg=dict(base, kind="irfftn"), limits=big))
        if i % 2 == 0 or not q:
            t.append(dict(harness="h_rfft_half", cfg=base, limits=big))
        if i % 3 == 0 or not q:
            t.append(dict(harness="h_linear", cfg=dict(base, kind="fftn" if i % 2 else "rfftn"), limits=big))
    for n in ([(5,), (7, 2), (8, 1, 5)] if q else [(5,), (7, 2), (8, 1, 5), (9,), (10, 3), (5, 5, 5), (2, 7, 1, 5)]):
        t.append(dict(harness="h_mesh_only", cfg=dict(n=list(n)), limits=big))
    for n in ((4,), (3, 2), (1, 3)):
        t.append(dict(harness="h_mesh_only", cfg=dict(n=list(n)), limits=big))
    # axis names that already look reciprocal, components mapped to axes outside the mesh, explicitly real-typed fields
    extra = [dict(n=[3], nvdim=2, labels="custom", mapping="offmesh", dims="kprefixed", dtype="float"),
             dict(n=[2, 3], nvdim=3, labels="default", mapping="offmesh", dims="default", dtype="float"),
             dict(n=[4, 1], nvdim=2, labels="tricky", mapping="permuted", dims="kprefixed", units=True)]
    if not q:
        extra += [dict(n=[2, 2, 3], nvdim=3, labels="custom", mapping="default", dims="kprefixed", dtype="float"), dict(n=[6], nvdim=3, labels="tricky", mapping="offmesh", dims="renamed")]
    for base in extra:
        t.append(dict(harness="h_forward", cfg=dict(base, kind="fftn"), limits=big))
        t.append(dict(harness="h_forward", cfg=dict(base, kind="rfftn"), limits=big))
        t.append(dict(harness="h_inverse", cfg=dict(base, kind="ifftn"), limits=big))
        t.append(dict(harness="h_inverse", cfg=dict(base, kind="irfftn-shape"), limits=big))
        t.append(dict(harness="h_mesh_only", cfg=dict(n=base["n"], dims=base["dims"]), limits=big))
    return t
