#!/bin/sh
# usage: tools/runall.sh [tier] [props...]  -- run the registered checks one after the other, print the summary lines
TIER=${1:-quick}; shift
PROPS=${@:-$(/venv/bin/python -c "import json;print(' '.join(c['property_id'] for c in json.load(open('/verif/MANIFEST.json'))['checks']))")}
for C in $PROPS; do
  OUT=$(/verif/bin/check "$C" --tier "$TIER" 2>&1); RC=$?
  echo "$OUT" | grep -E "^\[C|^VIOLATION|^KNOWN|^  !" | head -8 | cut -c1-400
  echo "   -> $C exit=$RC"
done
