"""SymArray: a real ndarray subclass (dtype=object) that carries symbolic scalars
through NumPy.  Structural work is NumPy's own; only the functions that cannot
work on objects are modelled here (DESIGN 1.2)."""
from __future__ import annotations

import math
import operator

import numpy as np
import z3

from . import core
from .core import Unsupported
from .scalars import (
    Sym,
    SymBool,
    SymComplex,
    SymInt,
    SymReal,
    _lift,
    _py,
    as_bool_term,
    is_sym,
    ite,
    mkbool,
    smax,
    smin,
)


# --------------------------------------------------------------------------
def has_sym(x):
    """does x (scalar / nested sequence / array) contain a proxy?"""
    if isinstance(x, Sym):
        return True
    if isinstance(x, np.ndarray):
        if x.dtype != object:
            return False
        return any(isinstance(e, Sym) for e in x.flat)
    if isinstance(x, (list, tuple)):
        return any(has_sym(e) for e in x)
    return False


def plain(x):
    """SymArray -> base-class view (avoids protocol recursion)"""
    if isinstance(x, SymArray):
        return x.view(np.ndarray)
    return x


def demote(a):
    """object array without proxies whose elements are all bools -> real bool array"""
    if isinstance(a, np.ndarray) and a.dtype == object and a.size > 0:
        if all(isinstance(e, (bool, np.bool_)) for e in a.flat):
            return np.asarray(a.view(np.ndarray), dtype=bool)
    return a


def wrap(r):
    """post-process a NumPy result"""
    if isinstance(r, np.ndarray):
        if r.dtype == object:
            if r.ndim == 0:
                return r.item()
            r = demote(r)
            if r.dtype == object and not isinstance(r, SymArray):
                return r.view(SymArray)
        return r
    if isinstance(r, tuple):
        return tuple(wrap(e) for e in r)
    if isinstance(r, list):
        return [wrap(e) for e in r]
    return r


def symarray(x):
    """list/tuple/array (possibly holding proxies) -> SymArray"""
    if isinstance(x, SymArray):
        return x
    if isinstance(x, np.ndarray):
        if x.dtype == object:
            return x.view(SymArray)
        out = np.empty(x.shape, dtype=object)
        out[...] = x.tolist() if x.ndim else x.item()
        return out.view(SymArray)
    # nested python sequence; build explicitly so proxies are never iterated
    arr = np.asarray(_tolists(x), dtype=object)
    return arr.view(SymArray)


def _tolists(x):
    if isinstance(x, np.ndarray):
        return x.tolist()
    if isinstance(x, (list, tuple)):
        return [_tolists(e) for e in x]
    return _py(x)


def symify(x):
    """convert python sequences that hold proxies into SymArray, leave the rest"""
    if isinstance(x, (list, tuple)) and has_sym(x):
        try:
            return symarray(x)
        except ValueError:
            return x
    if isinstance(x, np.ndarray) and x.dtype == object and not isinstance(x, SymArray):
        return x.view(SymArray)
    return x


# --------------------------------------------------------------------------
# element-wise models
def _e_not(a):
    a = _py(a)
    if isinstance(a, bool):
        return not a
    if isinstance(a, SymBool):
        return ~a
    if isinstance(a, Sym):
        return a == 0
    return not a


def _e_invert(a):
    a = _py(a)
    if isinstance(a, bool):
        return not a
    return ~a


def _truth(a):
    a = _py(a)
    if isinstance(a, (bool, SymBool)):
        return a
    if isinstance(a, Sym):
        return a != 0
    return bool(a)


def _e_and(a, b):
    a, b = _truth(a), _truth(b)
    if a is False or b is False:
        return False
    if a is True:
        return b
    if b is True:
        return a
    return a & b


def _e_or(a, b):
    a, b = _truth(a), _truth(b)
    if a is True or b is True:
        return True
    if a is False:
        return b
    if b is False:
        return a
    return a | b


def _e_xor(a, b):
    a, b = _truth(a), _truth(b)
    if isinstance(a, bool) and isinstance(b, bool):
        return a != b
    return a ^ b


def _e_isnan(a):
    a = _py(a)
    if isinstance(a, Sym):
        return False
    if isinstance(a, complex):
        return a != a
    return isinstance(a, float) and math.isnan(a)


def _e_isfinite(a):
    a = _py(a)
    if isinstance(a, Sym):
        return True
    return math.isfinite(a)


def _e_sign(a):
    a = _py(a)
    if isinstance(a, Sym):
        return a.sign()
    return (a > 0) - (a < 0)


def _e_floor(a):
    a = _py(a)
    return a.floor() if isinstance(a, Sym) else float(math.floor(a))


def _e_ceil(a):
    a = _py(a)
    return a.ceil() if isinstance(a, Sym) else float(math.ceil(a))


def _e_rint(a):
    a = _py(a)
    return a.rint() if isinstance(a, Sym) else float(round(a))


def _e_trunc(a):
    a = _py(a)
    return a.trunc() if isinstance(a, Sym) else float(math.trunc(a))


def _e_abs(a):
    return abs(_py(a))


def _e_eq(a, b):
    r = _py(a) == _py(b)
    return r


def _e_ne(a, b):
    return _py(a) != _py(b)


def _cmp(op):
    def f(a, b):
        return op(_py(a), _py(b))

    return f


def _e_real(a):
    a = _py(a)
    return a.real if isinstance(a, (Sym, complex, float, int)) else a


def _e_imag(a):
    a = _py(a)
    return a.imag if isinstance(a, (Sym, complex, float, int)) else 0.0


def _e_angle(a):
    a = _py(a)
    if isinstance(a, SymComplex):
        return a.angle()
    if isinstance(a, Sym):
        return SymReal(z3.If(a.t >= 0, z3.RealVal(0), z3.RealVal(math.pi))) if not isinstance(a, SymBool) else 0.0
    import cmath

    return cmath.phase(a)


_TABLE = {
    np.less: (_cmp(operator.lt), 2),
    np.less_equal: (_cmp(operator.le), 2),
    np.greater: (_cmp(operator.gt), 2),
    np.greater_equal: (_cmp(operator.ge), 2),
    np.equal: (_e_eq, 2),
    np.not_equal: (_e_ne, 2),
    np.logical_and: (_e_and, 2),
    np.logical_or: (_e_or, 2),
    np.logical_xor: (_e_xor, 2),
    np.logical_not: (_e_not, 1),
    np.invert: (_e_invert, 1),
    np.bitwise_and: (_e_and, 2),
    np.bitwise_or: (_e_or, 2),
    np.bitwise_xor: (_e_xor, 2),
    np.minimum: (smin, 2),
    np.maximum: (smax, 2),
    np.fmin: (smin, 2),
    np.fmax: (smax, 2),
    np.absolute: (_e_abs, 1),
    np.fabs: (_e_abs, 1),
    np.sign: (_e_sign, 1),
    np.floor: (_e_floor, 1),
    np.ceil: (_e_ceil, 1),
    np.rint: (_e_rint, 1),
    np.trunc: (_e_trunc, 1),
    np.isnan: (_e_isnan, 1),
    np.isfinite: (_e_isfinite, 1),
}
_BOOLISH = {
    np.less,
    np.less_equal,
    np.greater,
    np.greater_equal,
    np.equal,
    np.not_equal,
    np.logical_and,
    np.logical_or,
    np.logical_xor,
    np.logical_not,
    np.isnan,
    np.isfinite,
}
_ARITH_WHERE = {
    np.divide: operator.truediv,
    np.true_divide: operator.truediv,
    np.multiply: operator.mul,
    np.add: operator.add,
    np.subtract: operator.sub,
}
_REDUCE = {
    np.logical_and: (_e_and, True),
    np.logical_or: (_e_or, False),
    np.maximum: (smax, None),
    np.minimum: (smin, None),
    np.bitwise_and: (_e_and, True),
    np.bitwise_or: (_e_or, False),
}


def _elementwise(f, nin, *arrs):
    r = np.frompyfunc(f, nin, 1)(*[plain(a) for a in arrs])
    return r


def _where_apply(f, w, o, *xs):
    """element of ufunc(..., where=w, out=o)"""
    w = _py(w)
    if w is True:
        return f(*[_py(x) for x in xs])
    if w is False:
        return o
    c = core.ctx()
    wt = as_bool_term(w)
    old = c.cur_guard if c is not None else None
    if c is not None:
        c.cur_guard = wt if old is None else z3.And(old, wt)
    try:
        try:
            v = f(*[_py(x) for x in xs])
        except ZeroDivisionError:
            raise Unsupported("concrete zero divisor under symbolic where-mask")
    finally:
        if c is not None:
            c.cur_guard = old
    return ite(w, v, o)


class SymArray(np.ndarray):
    """object ndarray whose elements may be proxies"""

    def __array_finalize__(self, obj):
        pass

    # -- ufuncs -----------------------------------------------------------
    def __array_ufunc__(self, ufunc, method, *inputs, **kwargs):
        out = kwargs.pop("out", None)
        where = kwargs.pop("where", True)
        ins = [plain(symify(x)) for x in inputs]
        if out is not None:
            outs = tuple(plain(o) for o in out)
        else:
            outs = None

        if method == "__call__":
            if ufunc in _TABLE and (where is True):
                f, nin = _TABLE[ufunc]
                r = _elementwise(f, nin, *ins)
                if ufunc in _BOOLISH or r.dtype == object:
                    r = demote(r) if isinstance(r, np.ndarray) else r
                return self._finish(r, outs)
            if ufunc in _ARITH_WHERE and not (where is True):
                f = _ARITH_WHERE[ufunc]
                a, b = ins
                w = plain(symify(where))
                if outs is None:
                    raise Unsupported("ufunc with where= but without out=")
                o = outs[0]
                g = lambda w_, o_, a_, b_: _where_apply(f, w_, o_, a_, b_)  # noqa: E731
                r = np.frompyfunc(g, 4, 1)(w, o, a, b)
                return self._finish(r, outs)
            if not (where is True):
                raise Unsupported(f"where= on ufunc {ufunc.__name__} with symbolic operands")
            kw = dict(kwargs)
            if outs is not None:
                kw["out"] = outs
            try:
                r = ufunc(*ins, **kw)
            except np._core._exceptions._UFuncNoLoopError as e:  # noqa
                raise Unsupported(f"ufunc {ufunc.__name__} has no object loop: {e}")
            except AttributeError as e:
                raise Unsupported(f"ufunc {ufunc.__name__} on symbolic objects: {e}")
            if outs is not None:
                return out[0] if len(out) == 1 else out
            return wrap(r)

        if method == "reduce" and ufunc in _REDUCE:
            f, ident = _REDUCE[ufunc]
            return self._reduce(f, ident, ins[0], **kwargs)

        kw = dict(kwargs)
        if outs is not None:
            kw["out"] = outs
        if where is not True:
            kw["where"] = where
        r = getattr(ufunc, method)(*ins, **kw)
        if outs is not None:
            return out[0] if len(out) == 1 else out
        return wrap(r)

    @staticmethod
    def _finish(r, outs):
        if outs is not None:
            o = outs[0]
            if o.dtype != object and has_sym(r):
                raise Unsupported("symbolic result written into a non-object array")
            o[...] = r
            return wrap(o) if o.dtype == object else o
        return wrap(r)

    @staticmethod
    def _reduce(f, ident, a, axis=0, keepdims=False, initial=None, dtype=None, **kw):
        a = np.asarray(a, dtype=object)
        if axis is None:
            axes = tuple(range(a.ndim))
        elif isinstance(axis, (tuple, list)):
            axes = tuple(ax % a.ndim for ax in axis)
        else:
            axes = (axis % a.ndim,)
        rest = [i for i in range(a.ndim) if i not in axes]
        perm = rest + list(axes)
        t = a.transpose(perm).reshape([a.shape[i] for i in rest] + [-1])
        outshape = tuple(a.shape[i] for i in rest)
        res = np.empty(outshape, dtype=object)
        for idx in np.ndindex(*outshape):
            vals = list(t[idx])
            if initial is not None:
                vals = [initial] + vals
            if not vals:
                if ident is None:
                    raise ValueError("zero-size reduction without identity")
                acc = ident
            else:
                acc = vals[0] if ident is None else f(ident, vals[0])
                for v in vals[1:]:
                    acc = f(acc, v)
            res[idx] = acc
        if keepdims:
            shp = [1 if i in axes else a.shape[i] for i in range(a.ndim)]
            res = res.reshape(shp)
        return wrap(res)

    # -- functions ----------------------------------------------------------
    def __array_function__(self, func, types, args, kwargs):
        h = _FUNCS.get(func)
        if h is not None:
            return h(*args, **kwargs)
        args2 = _strip(args)
        kwargs2 = {k: _strip(v) for k, v in kwargs.items()}
        r = func(*args2, **kwargs2)
        return wrap(r)

    # -- methods ----------------------------------------------------------------
    def astype(self, dtype, *a, **k):
        return _astype(self, dtype)

    def round(self, decimals=0, out=None):
        if decimals != 0:
            raise Unsupported("round(decimals) on symbolic array")
        return wrap(_elementwise(_e_rint, 1, self))

    def all(self, axis=None, out=None, keepdims=False, **kw):
        return SymArray._reduce(_e_and, True, plain(self), axis=axis, keepdims=keepdims)

    def any(self, axis=None, out=None, keepdims=False, **kw):
        return SymArray._reduce(_e_or, False, plain(self), axis=axis, keepdims=keepdims)

    def max(self, axis=None, out=None, keepdims=False, **kw):
        return SymArray._reduce(smax, None, plain(self), axis=axis, keepdims=keepdims)

    def min(self, axis=None, out=None, keepdims=False, **kw):
        return SymArray._reduce(smin, None, plain(self), axis=axis, keepdims=keepdims)

    def mean(self, axis=None, dtype=None, out=None, keepdims=False, **kw):
        a = plain(self)
        if axis is None:
            cnt = a.size
        elif isinstance(axis, (tuple, list)):
            cnt = 1
            for ax in axis:
                cnt *= a.shape[ax]
        else:
            cnt = a.shape[axis]
        s = np.add.reduce(a, axis=axis, keepdims=keepdims) if not isinstance(axis, list) else np.add.reduce(
            a, axis=tuple(axis), keepdims=keepdims
        )
        if cnt == 0:
            raise Unsupported("mean of empty symbolic array")
        r = s / cnt if not isinstance(s, np.ndarray) else np.true_divide(s, cnt)
        return wrap(r)

    @property
    def real(self):
        return wrap(_elementwise(_e_real, 1, self))

    @property
    def imag(self):
        return wrap(_elementwise(_e_imag, 1, self))

    def conjugate(self):
        return wrap(_elementwise(lambda a: _py(a).conjugate() if hasattr(_py(a), "conjugate") else a, 1, self))

    conj = conjugate

    def clip(self, min=None, max=None, out=None, **kw):
        return _clip(self, min, max)

    def argsort(self, *a, **k):
        if has_sym(self):
            raise Unsupported("argsort on symbolic data")
        return plain(self).argsort(*a, **k)

    def __getitem__(self, key):
        return super().__getitem__(_concrete_index(key))

    def __setitem__(self, key, value):
        key = _concrete_index(key)
        if isinstance(value, SymArray):
            value = plain(value)
        super().__setitem__(key, value)

    def __bool__(self):
        if self.size != 1:
            raise ValueError("The truth value of an array with more than one element is ambiguous.")
        return bool(_truth(self.flat[0]))

    def __iter__(self):
        if self.ndim == 0:
            raise TypeError("iteration over a 0-d array")
        for i in range(self.shape[0]):
            yield self[i]

    def tobytes(self, *a, **k):
        raise Unsupported("tobytes on symbolic array")


def _concrete_index(key):
    """symbolic masks / symbolic ints used as index -> concrete (decided by the pc, else forks)"""
    if isinstance(key, tuple):
        return tuple(_concrete_index(k) for k in key)
    if isinstance(key, SymArray):
        if key.size and all(isinstance(e, (bool, SymBool, np.bool_)) for e in key.flat):
            out = np.empty(key.shape, dtype=bool)
            for idx in np.ndindex(*key.shape):
                out[idx] = bool(key.view(np.ndarray)[idx])
            return out
        if all(isinstance(e, (int, SymInt, np.integer)) for e in key.flat):
            out = np.empty(key.shape, dtype=int)
            for idx in np.ndindex(*key.shape):
                out[idx] = operator.index(key.view(np.ndarray)[idx])
            return out
        raise Unsupported("symbolic array used as index")
    if isinstance(key, SymInt):
        return operator.index(key)
    if isinstance(key, slice):
        return slice(
            *[operator.index(v) if isinstance(v, SymInt) else v for v in (key.start, key.stop, key.step)]
        )
    if isinstance(key, list) and has_sym(key):
        return [_concrete_index(k) for k in key]
    return key


def _strip(x):
    if isinstance(x, SymArray):
        return plain(x)
    if isinstance(x, (list, tuple)):
        return type(x)(_strip(e) for e in x) if not hasattr(x, "_fields") else x
    return x


# --------------------------------------------------------------------------
def _kind(dtype):
    if dtype is None:
        return None
    if dtype in (float, "float", "float64", "f8", "<d", "d", np.float64, np.float32, "<f", "f4", "float32"):
        return "f"
    if dtype in (int, "int", "int64", "i8", np.int64, np.int32, np.intp):
        return "i"
    if dtype in (bool, "bool", np.bool_):
        return "b"
    if dtype in (complex, "complex", np.complex128, np.complex64):
        return "c"
    if dtype in (object, "O"):
        return "O"
    try:
        k = np.dtype(dtype).kind
    except TypeError:
        return None
    return {"f": "f", "i": "i", "u": "i", "b": "b", "c": "c", "O": "O"}.get(k)


def _conv_elem(kind):
    def f(e):
        e = _py(e)
        if kind == "f":
            if isinstance(e, SymInt):
                return SymReal(e.t)
            if isinstance(e, SymBool):
                return SymReal(z3.If(e.t, z3.RealVal(1), z3.RealVal(0)))
            if isinstance(e, SymComplex):
                return e.re  # numpy: discards imaginary part (with a warning)
            if isinstance(e, Sym):
                return e
            if isinstance(e, complex):
                return e.real
            return float(e)
        if kind == "i":
            if isinstance(e, SymReal):
                return e.__trunc__()
            if isinstance(e, SymBool):
                return e._as_int()
            if isinstance(e, Sym):
                return e
            return int(e)
        if kind == "b":
            return _truth(e)
        if kind == "c":
            return e
        return e

    return f


def _astype(a, dtype):
    kind = _kind(dtype)
    if kind is None:
        raise Unsupported(f"astype({dtype!r}) on symbolic array")
    r = _elementwise(_conv_elem(kind), 1, a)
    if not isinstance(r, np.ndarray):
        return r
    if kind == "b":
        return wrap(r)
    if kind == "i" and not has_sym(r):
        return np.asarray(r, dtype=int)
    return r.view(SymArray) if r.dtype == object else r


def _clip(a, lo, hi):
    r = symarray(a) if not isinstance(a, np.ndarray) else a
    if lo is not None:
        r = _elementwise(smax, 2, r, symify(lo))
    if hi is not None:
        r = _elementwise(smin, 2, r, symify(hi))
    return wrap(r)


def _isclose(a, b, rtol=1e-05, atol=1e-08, equal_nan=False):
    def f(x, y):
        x, y = _py(x), _py(y)
        if not is_sym(x) and not is_sym(y) and not is_sym(_py(atol)) and not is_sym(_py(rtol)):
            return bool(np.isclose(x, y, rtol=rtol, atol=atol, equal_nan=equal_nan))
        return abs(x - y) <= _py(atol) + _py(rtol) * abs(y)

    return wrap(np.frompyfunc(f, 2, 1)(plain(symify(a)), plain(symify(b))))


def _allclose(a, b, rtol=1e-05, atol=1e-08, equal_nan=False):
    r = _isclose(a, b, rtol=rtol, atol=atol, equal_nan=equal_nan)
    if isinstance(r, np.ndarray):
        return r.all() if isinstance(r, SymArray) else bool(r.all())
    return r


def _array_equal(a1, a2, equal_nan=False):
    a1 = np.asarray(plain(symify(a1)))
    a2 = np.asarray(plain(symify(a2)))
    if a1.shape != a2.shape:
        return False
    r = wrap(_elementwise(_e_eq, 2, a1, a2))
    if isinstance(r, np.ndarray):
        return r.all() if isinstance(r, SymArray) else bool(r.all())
    return r


def _norm(x, ord=None, axis=None, keepdims=False):
    if ord not in (None, 2):
        raise Unsupported("linalg.norm with ord")
    x = plain(symify(x))
    sq = np.frompyfunc(lambda e: abs(_py(e)) * abs(_py(e)) if isinstance(_py(e), (SymComplex, complex)) else _py(e) * _py(e), 1, 1)(x)
    s = np.add.reduce(sq, axis=axis, keepdims=keepdims)

    def rt(e):
        e = _py(e)
        if isinstance(e, Sym):
            return e.sqrt()
        return math.sqrt(e)

    if isinstance(s, np.ndarray):
        return wrap(np.frompyfunc(rt, 1, 1)(s))
    return rt(s)


def _gradient(f, *varargs, axis=None, edge_order=1):
    f = plain(symify(f))
    if f.ndim != 1 or len(varargs) != 1:
        raise Unsupported("np.gradient model: 1-d, uniform spacing only")
    dx = varargs[0]
    n = f.shape[0]
    if n < edge_order + 1:
        raise ValueError(
            "Shape of array too small to calculate a numerical gradient, "
            "at least (edge_order + 1) elements are required."
        )
    out = np.empty(n, dtype=object)
    for i in range(1, n - 1):
        out[i] = (f[i + 1] - f[i - 1]) / (2.0 * dx)
    if edge_order == 1:
        out[0] = (f[1] - f[0]) / dx
        out[-1] = (f[-1] - f[-2]) / dx
    else:
        out[0] = -(3.0 * f[0] - 4.0 * f[1] + f[2]) / (2.0 * dx)
        out[-1] = (3.0 * f[-1] - 4.0 * f[-2] + f[-3]) / (2.0 * dx)
    return out.view(SymArray)


def _where(cond, *xy):
    cond_p = plain(symify(cond))
    if not xy:
        if isinstance(cond_p, np.ndarray) and cond_p.dtype == object:
            cb = np.empty(cond_p.shape, dtype=bool)
            for idx in np.ndindex(*cond_p.shape):
                cb[idx] = bool(_truth(cond_p[idx]))  # forks where undecided
            return np.nonzero(cb)
        return np.nonzero(cond_p)
    x, y = xy
    r = np.frompyfunc(lambda c, a, b: ite(_truth(c), _py(a), _py(b)), 3, 1)(cond_p, plain(symify(x)), plain(symify(y)))
    return wrap(r)


def _round(a, decimals=0, out=None):
    if decimals != 0:
        raise Unsupported("np.round(decimals) on symbolic")
    return wrap(_elementwise(_e_rint, 1, symify(a)))


def _real(a):
    return symarray(a).real


def _imag(a):
    return symarray(a).imag


def _angle(z, deg=False):
    if deg:
        raise Unsupported("angle(deg=True)")
    return wrap(_elementwise(_e_angle, 1, symify(z)))


def _mean(a, axis=None, **kw):
    return symarray(a).mean(axis=axis, **{k: v for k, v in kw.items() if k == "keepdims"})


def _nonzero(a):
    return _where(a)


def _argwhere(a):
    return np.transpose(_where(a))


def _isreal(a):
    return wrap(_elementwise(lambda e: not isinstance(_py(e), (SymComplex, complex)) or _py(e).imag == 0, 1, symify(a)))


def _iscomplexobj(a):
    a = plain(symify(a))
    if isinstance(a, np.ndarray) and a.dtype == object:
        return any(isinstance(e, (SymComplex, complex)) for e in a.flat)
    return np.iscomplexobj(a)


def _sum_like(a, axis=None, dtype=None, out=None, keepdims=False, **kw):
    r = np.add.reduce(plain(symify(a)), axis=axis, keepdims=keepdims)
    return wrap(r)


def _cumsum(a, axis=None, dtype=None, out=None):
    return wrap(np.add.accumulate(plain(symify(a)), axis=axis if axis is not None else 0))


def _prod(a, axis=None, dtype=None, out=None, keepdims=False, **kw):
    return wrap(np.multiply.reduce(plain(symify(a)), axis=axis, keepdims=keepdims))


def _any(a, axis=None, out=None, keepdims=False, **kw):
    return symarray(a).any(axis=axis, keepdims=keepdims)


def _all(a, axis=None, out=None, keepdims=False, **kw):
    return symarray(a).all(axis=axis, keepdims=keepdims)


def _amax(a, axis=None, out=None, keepdims=False, **kw):
    return symarray(a).max(axis=axis, keepdims=keepdims)


def _amin(a, axis=None, out=None, keepdims=False, **kw):
    return symarray(a).min(axis=axis, keepdims=keepdims)


def _linspace(start, stop, num=50, endpoint=True, **kw):
    if not endpoint:
        raise Unsupported("linspace(endpoint=False)")
    num = operator.index(num)
    out = np.empty(num, dtype=object)
    if num == 1:
        out[0] = _py(start) * 1.0
        return out.view(SymArray)
    step = (_py(stop) - _py(start)) / (num - 1)
    for i in range(num):
        out[i] = _py(start) + i * step
    out[-1] = _py(stop) * 1.0  # NumPy's documented end-point rule
    return out.view(SymArray)


def _convolve(a, v, mode="full"):
    a = plain(symify(a))
    v = plain(symify(v))
    r = np.convolve(np.asarray(a, dtype=object), np.asarray(v, dtype=object), mode)
    return wrap(r)


_FUNCS = {
    np.isclose: _isclose,
    np.allclose: _allclose,
    np.array_equal: _array_equal,
    np.linalg.norm: _norm,
    np.gradient: _gradient,
    np.where: _where,
    np.round: _round,
    np.around: _round,
    np.clip: _clip,
    np.real: _real,
    np.imag: _imag,
    np.angle: _angle,
    np.mean: _mean,
    np.nonzero: _nonzero,
    np.argwhere: _argwhere,
    np.isreal: _isreal,
    np.iscomplexobj: _iscomplexobj,
    np.sum: _sum_like,
    np.cumsum: _cumsum,
    np.prod: _prod,
    np.any: _any,
    np.all: _all,
    np.max: _amax,
    np.amax: _amax,
    np.min: _amin,
    np.amin: _amin,
    np.convolve: _convolve,
}
