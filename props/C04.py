"""C04 -- derivatives: exact on low-degree polynomials per valid run, blind across gaps, linear (DESIGN 2/C04)."""
from __future__ import annotations

import itertools

import numpy as np

from symx import lib
from symx.sarray import symarray

from .common import DIMSETS, sym_mesh

META = dict(
    bounds=dict(
        quick=dict(also="open lines under bc='neumann' / 'dirichlet' / rings along other axes with axis names that are letters of those words; integer-typed data (native); cells masked in place between two derivatives",
                   kernel_line_length="1..7, all 2^L validity patterns, both orders",
                   field_diff="ndim 1..3, n<=4 on the differentiated axis, <=2 elsewhere, nvdim 1..2, all validity patterns "
                              "(<=64 per mesh), open and periodic, restrict2valid on/off; periodic rings 1..5"),
        thorough=dict(kernel_line_length="1..10", field_diff="as quick plus n<=5, 4-d meshes, rings 1..6"),
    ),
    stubs=["np.gradient modelled (central differences, one-sided edge_order 1/2 ends)", "np.convolve on object arrays (real NumPy)"],
    assumptions=["REAL theory", "polynomial data per maximal run with independent coefficients; invalid cells hold free symbols"],
    outside=["line length > 10", "NaN values", "derivative order other than 1, 2"],
)


def _runs(pattern):
    """maximal runs of True in a list of bools -> list of (start, stop)"""
    runs, i, n = [], 0, len(pattern)
    while i < n:
        if pattern[i]:
            j = i
            while j < n and pattern[j]:
                j += 1
            runs.append((i, j))
            i = j
        else:
            i += 1
    return runs


def _poly_run(sx, tag, length, order, dx):
    """data and exact derivative for one run of `length` cells: independent polynomial of the highest degree for which
    the statement promises exactness"""
    if order == 1:
        deg = 2 if length >= 3 else 1
    else:
        deg = 3 if length >= 4 else 2
    a = [sx.real(f"{tag}a{d}") for d in range(deg + 1)]
    data, exact = [], []
    for k in range(length):
        t = k * dx
        v = a[0]
        for d in range(1, deg + 1):
            v = v + a[d] * t**d
        data.append(v)
        if length <= order:
            exact.append(0.0)
        elif order == 1:
            ex = 0.0
            for d in range(1, deg + 1):
                ex = ex + d * a[d] * (t ** (d - 1) if d > 1 else 1.0)
            exact.append(ex)
        else:
            ex = 0.0
            for d in range(2, deg + 1):
                ex = ex + d * (d - 1) * a[d] * (t ** (d - 2) if d > 2 else 1.0)
            exact.append(ex)
    return data, exact


def h_kernel(sx, cfg):
    """operators._split_diff_combine on one line: every validity pattern, polynomial data per run"""
    lib.load()
    from discretisedfield.operators import _split_diff_combine

    L, order = cfg["L"], cfg["order"]
    dx = sx.real("dx")
    sx.assume(dx > 0)
    vb = [sx.bool(f"valid{j}") for j in range(L)]
    pattern = [sx.decide(sx.truth(b)) for b in vb]  # forks: 2^L paths
    data = [None] * L
    exact = [0.0] * L
    for r, (s, e) in enumerate(_runs(pattern)):
        d, ex = _poly_run(sx, f"r{r}", e - s, order, dx)
        data[s:e] = d
        exact[s:e] = ex
    for j in range(L):
        if not pattern[j]:
            data[j] = sx.real(f"u{j}")  # free value in an invalid cell: must not influence anything
    arr = sx.arr(data)
    valid = np.array(pattern, dtype=bool)
    out = _split_diff_combine(arr, valid, order, dx)
    sx.check("shape", tuple(np.shape(out)) == (L,))
    sx.observe("out", out)
    for j in range(L):
        kind = "invalid-zero" if not pattern[j] else "run"
        sx.check(f"{kind}[{j}]", sx.eq(out[j], exact[j]))


def h_kernel_linear(sx, cfg):
    """D(alpha v + beta w) = alpha D(v) + beta D(w) for free data, every validity pattern"""
    lib.load()
    from discretisedfield.operators import _split_diff_combine

    L, order = cfg["L"], cfg["order"]
    dx = sx.real("dx")
    sx.assume(dx > 0)
    al, be = sx.real("alpha"), sx.real("beta")
    vb = [sx.bool(f"valid{j}") for j in range(L)]
    pattern = [sx.decide(sx.truth(b)) for b in vb]
    v = sx.reals("v", L)
    w = sx.reals("w", L)
    valid = np.array(pattern, dtype=bool)
    dv = _split_diff_combine(sx.arr(v), valid, order, dx)
    dw = _split_diff_combine(sx.arr(w), valid, order, dx)
    dm = _split_diff_combine(sx.arr([al * v[j] + be * w[j] for j in range(L)]), valid, order, dx)
    for j in range(L):
        sx.check(f"linear[{j}]", sx.eq(dm[j], al * dv[j] + be * dw[j]))


def _ring_runs(pattern):
    """runs of a ring: list of index lists in ring order; a fully valid ring is one run without ends"""
    n = len(pattern)
    if all(pattern):
        return [("full", list(range(n)))]
    # rotate so that position 0 of the rotated list is invalid
    z = pattern.index(False)
    rot = [(z + k) % n for k in range(n)]
    out = []
    cur = []
    for idx in rot:
        if pattern[idx]:
            cur.append(idx)
        else:
            if cur:
                out.append(("run", cur))
            cur = []
    if cur:
        out.append(("run", cur))
    return out


def h_field_diff(sx, cfg):
    """Field.diff end to end: per line / per component / per run oracle, metadata, periodic rings"""
    df = lib.load()
    n = tuple(cfg["n"])
    nd = len(n)
    ax = cfg["axis"]
    order = cfg["order"]
    nv = cfg["nvdim"]
    periodic = cfg["periodic"]
    restrict = cfg["restrict"]
    dims = DIMSETS[cfg.get("dims", "default")][nd]
    bc = dims[ax] if periodic else cfg.get("bc", "")
    if bc == "other":  # periodic along every other (one-letter) axis, open along the differentiated one
        bc = "".join(d for a, d in enumerate(dims) if a != ax and len(d) == 1)
    mesh, pmin, e = sym_mesh(sx, n, dims=dims, bc=bc)
    dx = e[ax] / n[ax]
    vshape = n
    vbits = np.empty(vshape, dtype=object)
    if cfg.get("all_valid"):
        pat = np.ones(vshape, dtype=bool)
    else:
        pat = np.empty(vshape, dtype=bool)
        for idx in np.ndindex(*vshape):
            b = sx.bool("valid_" + "_".join(map(str, idx)))
            pat[idx] = sx.decide(sx.truth(b))
    data = np.empty((*n, nv), dtype=object)
    exact = np.empty((*n, nv), dtype=object)
    klass = np.empty((*n, nv), dtype=object)
    other = [range(n[a]) for a in range(nd) if a != ax]
    for rest in itertools.product(*other):
        def full(i):
            lst = list(rest)
            lst.insert(ax, i)
            return tuple(lst)

        line_pat = [bool(pat[full(i)]) for i in range(n[ax])]
        eff = line_pat if restrict else [True] * n[ax]
        for c in range(nv):
            tag = "l" + "_".join(map(str, rest)) + f"c{c}"
            if not periodic:
                for r, (s, t) in enumerate(_runs(eff)):
                    d, ex = _poly_run(sx, f"{tag}r{r}", t - s, order, dx)
                    for k in range(s, t):
                        data[full(k) + (c,)] = d[k - s]
                        exact[full(k) + (c,)] = ex[k - s]
                        klass[full(k) + (c,)] = "run"
            else:
                for r, (kind, members) in enumerate(_ring_runs(eff)):
                    if kind == "full":
                        vals = [sx.real(f"{tag}v{k}") for k in members]
                        m = len(members)
                        for k in members:
                            data[full(k) + (c,)] = vals[k]
                            up, dn = vals[(k + 1) % m], vals[(k - 1) % m]
                            exact[full(k) + (c,)] = (up - dn) / (2 * dx) if order == 1 else (up - 2 * vals[k] + dn) / dx**2
                            klass[full(k) + (c,)] = "ring-centred"
                    else:
                        d, ex = _poly_run(sx, f"{tag}r{r}", len(members), order, dx)
                        # does the run cross the wrap-around, and if so is it truncated by the one-cell padding?
                        crossing = any(members[q + 1] < members[q] for q in range(len(members) - 1))
                        for q, k in enumerate(members):
                            data[full(k) + (c,)] = d[q]
                            exact[full(k) + (c,)] = ex[q]
                            if not crossing:
                                klass[full(k) + (c,)] = "ring-run"
                            else:
                                # padded line = [last] + cells + [first]; the segment that contains k
                                padded = [eff[-1]] + eff + [eff[0]]
                                pos = k + 1
                                lo = pos
                                while lo - 1 >= 0 and padded[lo - 1]:
                                    lo -= 1
                                hi = pos
                                while hi + 1 < len(padded) and padded[hi + 1]:
                                    hi += 1
                                covered = (hi - lo + 1) >= len(members) and (pos - lo) >= q and (hi - pos) >= len(members) - 1 - q
                                klass[full(k) + (c,)] = "ring-run-crossing" if covered else "ring-run-crossing-truncated"
            for k in range(n[ax]):
                if not eff[k]:
                    data[full(k) + (c,)] = sx.real(f"{tag}u{k}")
                    exact[full(k) + (c,)] = 0.0
                    klass[full(k) + (c,)] = "invalid-zero"
    vdims = [f"c{c}" for c in range(nv)] if (nv > 1 and cfg.get("labels")) else None
    if cfg.get("late_mask"):
        # history: the field starts fully valid, is differentiated once, then cells are masked in place
        f = df.Field(mesh, nvdim=nv, value=symarray(data) if sx.sym else data.astype(float), valid=True, vdims=vdims, unit="A/m")
        f.diff(dims[ax], order=order, restrict2valid=restrict)
        for idx in np.ndindex(*n):
            if not pat[idx]:
                f.valid[idx] = False
    else:
        f = df.Field(mesh, nvdim=nv, value=symarray(data) if sx.sym else data.astype(float), valid=pat, vdims=vdims, unit="A/m")
    g = f.diff(dims[ax], order=order, restrict2valid=restrict)
    sx.check("result-mesh", g.mesh == f.mesh and tuple(g.mesh.n) == n and g.mesh.bc == mesh.bc)
    sx.check("result-meta", g.nvdim == nv and g.vdims == f.vdims and g.unit == "A/m" and g.vdim_mapping == f.vdim_mapping)
    sx.check("result-valid", bool(np.array_equal(np.asarray(g.valid, dtype=bool), pat)))
    sx.check("operand-untouched", bool(np.array_equal(np.asarray(f.valid, dtype=bool), pat)))
    sx.observe("out", g.array)
    for idx in np.ndindex(*n):
        for c in range(nv):
            sx.check(f"{klass[idx + (c,)]}[{idx},{c}]", sx.eq(g.array[idx + (c,)], exact[idx + (c,)]))


def h_int_dtype(sx, cfg):
    """integer-typed data (concrete; the cast happens inside numpy): the derivative is the one of the same numbers held as floats"""
    df = lib.load()
    with sx.native():
        n = cfg["n"]
        cell = cfg["cell"]
        mesh = df.Mesh(p1=0.0, p2=n * cell, n=n)
        vals = np.array(cfg["values"], dtype=np.int64).reshape(n, 1)
        valid = np.array(cfg.get("valid", [True] * n), dtype=bool)
        for order in (1, 2):
            fi = df.Field(mesh, nvdim=1, value=vals, dtype=np.int64, valid=valid)
            ff = df.Field(mesh, nvdim=1, value=vals.astype(float), valid=valid)
            gi, gf = fi.diff("x", order=order), ff.diff("x", order=order)
            sx.check(f"int-data-order-{order}", bool(np.allclose(np.asarray(gi.array, dtype=float), gf.array, rtol=1e-12, atol=0.0)),
                     got=np.asarray(gi.array).ravel().tolist(), want=gf.array.ravel().tolist())
            sx.check(f"int-operand-untouched-{order}", fi.array.dtype == np.int64 and bool(np.array_equal(fi.array, vals)))


def h_refusals(sx, cfg):
    df = lib.load()
    mesh, pmin, e = sym_mesh(sx, (3, 2))
    f = df.Field(mesh, nvdim=1, value=symarray(sx.real_array("v", (3, 2, 1))))
    try:
        f.diff("x", order=3)
    except NotImplementedError:
        sx.check("order-3-refused", True)
    else:
        sx.check("order-3-refused", False)
    try:
        f.diff("q")
    except ValueError:
        sx.check("unknown-direction-refused", True)
    else:
        sx.check("unknown-direction-refused", False)


def tasks(tier):
    t = []
    Lmax = 6 if tier == "quick" else 10
    for L in range(1, Lmax + 1):
        for order in (1, 2):
            t.append(dict(harness="h_kernel", cfg=dict(L=L, order=order), limits=dict(max_paths=5000, validate=1)))
    for L in range(1, (4 if tier == "quick" else 7) + 1):
        for order in (1, 2):
            t.append(dict(harness="h_kernel_linear", cfg=dict(L=L, order=order), limits=dict(max_paths=5000, validate=1)))
    if tier == "quick":
        meshes = [((4,), 0), ((5,), 0), ((2, 3), 1), ((3, 1, 1), 0), ((1, 2, 2), 2)]
    else:
        meshes = [((4,), 0), ((3, 2), 0), ((2, 3), 1), ((3, 1, 2), 0), ((1, 2, 3), 2), ((2, 4, 1), 1),
                  ((5,), 0), ((6,), 0), ((2, 5), 1), ((4, 2, 1), 0), ((2, 1, 4), 2), ((2, 1, 3, 1), 2), ((3, 2, 1, 1), 0)]
    for n, ax in meshes:
        for order in (1, 2):
            for periodic in (False, True):
                for restrict in (True, False):
                    cells = int(np.prod(n))
                    nvs = (1, 2) if cells <= 6 else (1,)
                    for nv in nvs:
                        t.append(dict(harness="h_field_diff",
                                      cfg=dict(n=list(n), axis=ax, order=order, nvdim=nv, periodic=periodic, restrict=restrict,
                                               # periodic directions are named by single characters: 4-d needs the one-letter names
                                               dims="renamed" if ((len(n) + order) % 2 or (periodic and len(n) == 4)) else "default", labels=bool(nv > 1)),
                                      limits=dict(max_paths=5000, validate=1, wall_budget=600.0 if tier == "quick" else 3000.0)))
    # periodic rings of every small length, fully valid (centred difference with wrap-around)
    for ring in range(1, (5 if tier == "quick" else 6) + 1):
        for order in (1, 2):
            t.append(dict(harness="h_field_diff",
                          cfg=dict(n=[ring, 2], axis=0, order=order, nvdim=1, periodic=True, restrict=True, all_valid=True, dims="default"),
                          limits=dict(validate=1)))
            t.append(dict(harness="h_field_diff",
                          cfg=dict(n=[2, ring], axis=1, order=order, nvdim=2, periodic=True, restrict=True, all_valid=True, dims="renamed", labels=True),
                          limits=dict(validate=1)))
    # only the directions named in bc are rings: 'neumann' / 'dirichlet' and rings along other axes leave this line open
    # (axis names that are letters of those words: u, a, n / d, c ...)
    lim = dict(max_paths=5000, validate=1, wall_budget=600.0 if tier == "quick" else 3000.0)
    open_bc = [((4,), 0, "neumann", "renamed"), ((2, 3), 1, "neumann", "renamed"), ((3, 1, 1), 0, "neumann", "renamed"), ((3, 1, 1, 1), 0, "dirichlet", "renamed"),
               ((1, 3, 1, 1), 1, "neumann", "renamed"), ((3, 2), 0, "other", "default"), ((2, 3), 1, "other", "renamed"), ((3,), 0, "dirichlet", "default")]
    if tier != "quick":
        open_bc += [((5,), 0, "neumann", "renamed"), ((2, 1, 4), 0, "neumann", "renamed"), ((1, 1, 4, 1), 2, "dirichlet", "renamed"), ((2, 2, 3), 2, "other", "default")]
    for n, ax, bc, dims in open_bc:
        for order in (1, 2):
            t.append(dict(harness="h_field_diff", cfg=dict(n=list(n), axis=ax, order=order, nvdim=1, periodic=False, restrict=bool(order % 2), bc=bc, dims=dims), limits=lim))
    for n, ax in ([((4,), 0), ((2, 3), 1)] if tier == "quick" else [((4,), 0), ((5,), 0), ((2, 3), 1), ((3, 1, 2), 0)]):
        for order in (1, 2):
            for periodic in (False, True):
                t.append(dict(harness="h_field_diff", cfg=dict(n=list(n), axis=ax, order=order, nvdim=1, periodic=periodic, restrict=True, late_mask=True, dims="default"), limits=lim))
    for cfg in (dict(n=5, cell=2.0, values=[0, 1, 4, 9, 16]), dict(n=4, cell=0.5, values=[3, -2, 7, 5]), dict(n=6, cell=3.0, values=[1, 2, 4, 7, 11, 16], valid=[True, True, True, False, True, True])):
        t.append(dict(harness="h_int_dtype", cfg=cfg))
    t.append(dict(harness="h_refusals", cfg={}))
    return t
