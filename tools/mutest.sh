#!/bin/sh
# usage: tools/mutest.sh <patch.diff> <Cnn> [more Cnn...]   -- apply a seeded change to /repo, run the quick checks, undo
P=$(readlink -f "$1"); shift
if ! git -C /repo diff --quiet; then echo "/repo dirty"; exit 9; fi
if ! git -C /repo apply "$P" 2>/dev/null; then
  if ! git -C /repo apply --3way "$P" >/dev/null 2>&1; then echo "PATCH DOES NOT APPLY: $P"; git -C /repo reset -q --hard HEAD; exit 8; fi
  git -C /repo reset -q
fi
for C in "$@"; do
  OUT=$(/verif/bin/check "$C" --tier ${TIER:-quick} 2>&1); RC=$?
  echo "== $P on $C: exit=$RC"; echo "$OUT" | grep -E "^VIOLATION|^KNOWN|^\[C" | head -4 | cut -c1-330
  if [ $RC -ne 1 ]; then echo "$OUT" | grep "  !" | head -5 | cut -c1-400; fi
done
git -C /repo checkout -- .
