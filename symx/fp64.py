"""IEEE-754 binary64 mode for rounding-critical kernels (DESIGN 1.8).

Concolic proxies: a `SymFP` carries a z3 FloatingPoint term *and* the python float of one concrete witness.  The real
library code is executed on them (through the same numpy object arrays as the REAL theory); every comparison returns the
witness's truth value and records the corresponding FP condition in the path condition.  A lemma is then two queries,
decided by the cvc5 binary on the SMT-LIB export (z3 answers `unknown` on binary64 here):

    (A)  pre /\\ not(pc)            unsat  -> every input satisfying the precondition follows the witness's path
    (B)  pre /\\ pc /\\ not(post)    unsat  -> on that path the post-condition holds

Together: the post-condition holds for every binary64 input satisfying the precondition (within the concrete n, i of the query).
"""
from __future__ import annotations

import math
import numbers
import os
import subprocess
import tempfile
import time

import numpy as np
import z3

from . import core
from .core import Unsupported
from .scalars import Sym

F64 = z3.Float64()
RNE = z3.RNE()


def _lift(o):
    if isinstance(o, SymFP):
        return o
    if isinstance(o, np.generic):
        o = o.item()
    if isinstance(o, bool):
        o = int(o)
    if isinstance(o, (int, float)):
        f = float(o)
        if isinstance(o, int) and int(f) != o:
            raise Unsupported("integer constant not representable in binary64")
        return SymFP(z3.FPVal(f, F64), f)
    return None


class SymFP(Sym):
    __slots__ = ("v",)

    def __init__(self, t, v):
        self.t = t
        self.v = float(v)

    def __repr__(self):
        return f"SymFP({self.v!r})"

    __str__ = __repr__

    def __hash__(self):
        return id(self)

    # -- arithmetic (round to nearest even, like CPython / numpy float64)
    def _bin(self, o, zf, pf, swap=False):
        b = _lift(o)
        if b is None:
            return NotImplemented
        x, y = (b, self) if swap else (self, b)
        try:
            v = pf(x.v, y.v)
        except ZeroDivisionError:
            v = math.copysign(math.inf, x.v) * math.copysign(1.0, y.v) if x.v != 0 else math.nan
        return SymFP(zf(RNE, x.t, y.t), v)

    def __add__(self, o):
        return self._bin(o, z3.fpAdd, lambda a, b: a + b)

    def __radd__(self, o):
        return self._bin(o, z3.fpAdd, lambda a, b: a + b, swap=True)

    def __sub__(self, o):
        return self._bin(o, z3.fpSub, lambda a, b: a - b)

    def __rsub__(self, o):
        return self._bin(o, z3.fpSub, lambda a, b: a - b, swap=True)

    def __mul__(self, o):
        return self._bin(o, z3.fpMul, lambda a, b: a * b)

    def __rmul__(self, o):
        return self._bin(o, z3.fpMul, lambda a, b: a * b, swap=True)

    def __truediv__(self, o):
        return self._bin(o, z3.fpDiv, lambda a, b: a / b)

    def __rtruediv__(self, o):
        return self._bin(o, z3.fpDiv, lambda a, b: a / b, swap=True)

    def __neg__(self):
        return SymFP(z3.fpNeg(self.t), -self.v)

    def __pos__(self):
        return self

    def __abs__(self):
        return SymFP(z3.fpAbs(self.t), abs(self.v))

    absolute = __abs__

    # -- rounding to integral values (the result stays a binary64 number, like numpy's floor on floats)
    def floor(self):
        return SymFP(z3.fpRoundToIntegral(z3.RTN(), self.t), math.floor(self.v) if math.isfinite(self.v) else self.v)

    def ceil(self):
        return SymFP(z3.fpRoundToIntegral(z3.RTP(), self.t), math.ceil(self.v) if math.isfinite(self.v) else self.v)

    def rint(self):
        return SymFP(z3.fpRoundToIntegral(RNE, self.t), float(round(self.v)) if math.isfinite(self.v) else self.v)

    def __floor__(self):
        return self.floor()

    def __ceil__(self):
        return self.ceil()

    def __trunc__(self):
        return SymFP(z3.fpRoundToIntegral(z3.RTZ(), self.t), float(math.trunc(self.v)))

    # -- comparisons: the witness decides, the condition is recorded
    def _cmp(self, o, zf, pf):
        b = _lift(o)
        if b is None:
            return NotImplemented
        res = bool(pf(self.v, b.v))
        c = core.ctx()
        if c is None:
            raise Unsupported("SymFP comparison outside an FP run")
        term = zf(self.t, b.t)
        c.pc.append(term if res else z3.Not(term))
        return res

    def __lt__(self, o):
        return self._cmp(o, z3.fpLT, lambda a, b: a < b)

    def __le__(self, o):
        return self._cmp(o, z3.fpLEQ, lambda a, b: a <= b)

    def __gt__(self, o):
        return self._cmp(o, z3.fpGT, lambda a, b: a > b)

    def __ge__(self, o):
        return self._cmp(o, z3.fpGEQ, lambda a, b: a >= b)

    def __eq__(self, o):
        r = self._cmp(o, z3.fpEQ, lambda a, b: a == b)
        return r

    def __ne__(self, o):
        r = self._cmp(o, z3.fpEQ, lambda a, b: a == b)
        return r if r is NotImplemented else (not r)

    def __bool__(self):
        return self != 0.0

    def __float__(self):
        raise Unsupported("float() of a binary64 symbolic value")

    def __int__(self):
        raise Unsupported("int() of a binary64 symbolic value")

    def isnan(self):
        return False

    def isfinite(self):
        return True

    @property
    def real(self):
        return self

    @property
    def imag(self):
        return 0.0


numbers.Real.register(SymFP)


def fp_input(name, witness):
    return SymFP(z3.FP(name, F64), witness)


def run_concolic(fn):
    """execute fn() with a bare context (so the numpy proxy allocates object arrays); returns (result, pc)"""
    prev = core.ctx()
    ctx = core.Ctx([], core.Stats(), {})
    core.set_ctx(ctx)
    try:
        out = fn()
    finally:
        core.set_ctx(prev)
    return out, list(ctx.pc)


CVC5 = os.environ.get("VERIF_CVC5", "/usr/bin/cvc5")


def cvc5_check(assertions, timeout_s=900):
    """'sat' / 'unsat' / 'unknown' from the cvc5 binary on the SMT-LIB export; returns (verdict, seconds, model text or None)"""
    s = z3.Solver()
    for a in assertions:
        s.add(a)
    text = "(set-logic QF_FP)\n(set-option :produce-models true)\n" + s.to_smt2().replace("(check-sat)", "(check-sat)\n(get-model)")
    with tempfile.NamedTemporaryFile("w", suffix=".smt2", delete=False) as f:
        f.write(text)
        path = f.name
    t0 = time.time()
    try:
        r = subprocess.run([CVC5, f"--tlimit={int(timeout_s * 1000)}", path], capture_output=True, text=True, timeout=timeout_s + 30)
        out = r.stdout
    except subprocess.TimeoutExpired:
        out = "unknown"
    finally:
        os.unlink(path)
    dt = time.time() - t0
    lines = out.strip().splitlines()
    first = lines[0].strip() if lines else "unknown"
    if first not in ("sat", "unsat", "unknown"):
        return "unknown", dt, out[:400]
    if first == "sat" and "(error" in out:
        return "unknown", dt, out[:400]  # a model could not be produced: inconclusive
    # (get-model) after `unsat` prints an error line: that is not an error of the query
    return first, dt, ("\n".join(lines[1:]) if first == "sat" else None)


def model_floats(model_text, names):
    """binary64 values of the named constants from cvc5's (get-model) output"""
    import re
    import struct

    out = {}
    for n in names:
        m = re.search(r"\(define-fun\s+" + re.escape(n) + r"\s+\(\)\s+\(_ FloatingPoint 11 53\)\s+\(fp\s+#b([01])\s+#b([01]{11})\s+#(b[01]{52}|x[0-9a-fA-F]{13})\)", model_text or "")
        if not m:
            continue
        mant = m.group(3)
        mant_bits = mant[1:] if mant[0] == "b" else bin(int(mant[1:], 16))[2:].zfill(52)
        bits = int(m.group(1) + m.group(2) + mant_bits, 2)
        out[n] = struct.unpack(">d", bits.to_bytes(8, "big"))[0]
    return out
