"""run all harness tasks of one property, aggregate, write evidence, print verdict lines"""
from __future__ import annotations

import argparse
import hashlib
import importlib
import json
import multiprocessing as mp
import os
import sys
import time
import traceback

VERIF = os.path.dirname(os.path.dirname(os.path.abspath(__file__)))
sys.path.insert(0, VERIF)

EXIT_OK, EXIT_VIOLATION, EXIT_INCONCLUSIVE = 0, 1, 2


def load_known(prop):
    path = os.path.join(VERIF, "known_findings.json")
    if not os.path.exists(path):
        return []
    data = json.load(open(path))
    return [k for k in data.get("findings", []) if k["property"] == prop and k.get("status") == "known"]


def _worker(job):
    prop, hname, cfg, limits, seed = job
    try:
        from symx import engine, lib

        lib.load()
        mod = importlib.import_module(f"props.{prop}")
        fn = getattr(mod, hname)
        known = [k for k in load_known(prop) if k.get("harness") in (None, hname)]
        res = engine.explore(prop, hname, fn, cfg, known=known, seed=seed, repo_root=lib.REPO_ROOT, **limits)
        return res.to_dict()
    except BaseException as e:  # noqa: BLE001
        return dict(prop=prop, harness=hname, cfg=repr(cfg), fatal=f"{type(e).__name__}: {e}\n{traceback.format_exc(limit=8)}")


def run_property(prop, tier, seed, jobs=None, only=None):
    from symx import lib

    t0 = time.time()
    mod = importlib.import_module(f"props.{prop}")
    tasks = mod.tasks(tier)
    if only:
        tasks = [t for t in tasks if only in t["harness"]]
    if tier != "quick":
        # thorough: generous per-query and per-task budgets unless the task sets its own (16 workers share the cores)
        for t in tasks:
            lim = t.setdefault("limits", {})
            lim.setdefault("timeout_ms", 120000)
            lim.setdefault("wall_budget", 3600.0)
    joblist = [(prop, t["harness"], t["cfg"], t.get("limits", {}), seed) for t in tasks]
    nproc = jobs or min(16, max(1, len(joblist)))
    if nproc > 1:
        ctxm = mp.get_context("fork")
        with ctxm.Pool(nproc, maxtasksperchild=8) as pool:
            results = []
            for r in pool.imap_unordered(_worker, joblist, chunksize=1):
                results.append(r)
                if os.environ.get("VERIF_VERBOSE"):
                    print(f"  .. {r.get('harness')} {r.get('cfg')} paths={r.get('paths')} obl={r.get('obligations')} "
                          f"wall={r.get('wall', 0):.1f}s inconcl={len(r.get('inconclusive', []))} viol={len(r.get('violations', []))}",
                          flush=True)
    else:
        results = [_worker(j) for j in joblist]
    return finish(prop, tier, seed, mod, tasks, results, time.time() - t0)


def finish(prop, tier, seed, mod, tasks, results, wall):
    from symx import lib

    known_all = load_known(prop)
    viol, nonrepro, inconcl, errors, mism = [], [], [], [], []
    known_seen = {}
    agg = dict(paths=0, aborted=0, obligations=0, discharged=0, unknown=0, validated=0, queries=0, solver_time_s=0.0,
               branch_decisions=0, conditions_decided=0, cache_hits=0, max_query_s=0.0, checks_reached=0)
    functions = set()
    samples = []
    oblig_names = {}
    per_harness = {}
    for r in results:
        if "fatal" in r:
            errors.append(f"{r['harness']} {r['cfg']}: {r['fatal']}")
            continue
        for k in ("paths", "aborted", "obligations", "discharged", "unknown", "validated", "checks_reached"):
            agg[k] += r[k]
        st = r["stats"]
        for k in ("queries", "branch_decisions", "conditions_decided", "cache_hits"):
            agg[k] += st[k]
        agg["solver_time_s"] += st["solver_time_s"]
        agg["max_query_s"] = max(agg["max_query_s"], st["max_query_s"])
        functions.update(r["functions"])
        if len(samples) < 6:
            samples.extend(r["samples"][:1])
        for k, v in r["oblig_names"].items():
            key = f"{r['harness']}:{k}"
            oblig_names[key] = oblig_names.get(key, 0) + v
        ph = per_harness.setdefault(r["harness"], dict(tasks=0, paths=0, obligations=0, discharged=0, wall_s=0.0))
        ph["tasks"] += 1
        ph["paths"] += r["paths"]
        ph["obligations"] += r["obligations"]
        ph["discharged"] += r["discharged"]
        ph["wall_s"] = round(ph["wall_s"] + r["wall"], 2)
        viol.extend(r["violations"])
        nonrepro.extend(r["nonrepro"])
        inconcl.extend(f"{r['harness']} {r['cfg']}: {m}" for m in r["inconclusive"])
        errors.extend(f"{r['harness']} {r['cfg']}: {m}" for m in r["errors"])
        mism.extend(dict(harness=r["harness"], **m) for m in r["validation_mismatch"])
        for k in r["known_seen"]:
            known_seen.setdefault(k["id"], k)

    # replay files + verdict lines
    lines = []
    rdir = os.path.join(VERIF, "replays", prop)
    if os.path.isdir(rdir):
        # replay files of earlier runs are not evidence for this one
        for fn in os.listdir(rdir):
            if fn.endswith(".json"):
                os.remove(os.path.join(rdir, fn))
    seen_keys = set()
    for v in viol:
        key = (v["harness"], v["obligation"].split("[")[0])
        h = hashlib.sha1(json.dumps(v, sort_keys=True, default=str).encode()).hexdigest()[:10]
        os.makedirs(rdir, exist_ok=True)
        path = os.path.join(rdir, f"{v['harness']}-{h}.json")
        with open(path, "w") as f:
            json.dump(v, f, indent=1, default=str)
        if key in seen_keys and len(lines) >= 5:
            continue
        seen_keys.add(key)
        lines.append(f"VIOLATION property={prop} replay={path}")
    for kid, k in known_seen.items():
        kf = next((x for x in known_all if x["id"] == kid), None)
        text = kf["text"] if kf else kid
        print(f"KNOWN-FINDING: property={prop} {text}")
    for ln in lines:
        print(ln)

    status = EXIT_OK
    if mism:
        status = EXIT_INCONCLUSIVE
    if inconcl or errors or agg["unknown"]:
        status = EXIT_INCONCLUSIVE
    if viol:
        status = EXIT_VIOLATION

    meta = getattr(mod, "META", {})
    nontrivial = len(oblig_names)
    ev = dict(
        property_id=prop,
        tier=tier,
        seed=seed,
        level="model_checking",
        coverage=dict(
            states=max(agg["paths"], 0),
            # solver decisions taken by this run: branch conditions decided plus obligation / side-condition queries
            transitions=agg["conditions_decided"] + agg["queries"],
            branch_conditions_decided=agg["conditions_decided"],
            traces_validated_against_impl=agg["validated"],
            samples=samples or [dict(note="no path completed")],
            obligations=agg["obligations"],
            discharged=agg["discharged"],
            evaluations=agg["obligations"],
            distinct_nontrivial=nontrivial,
            rule="one obligation = one SMT query pc /\\ not(post) per path and per output element group; distinct = "
                 "distinct (harness, obligation name) pairs whose negation did not fold to false syntactically",
            exhaustive=False,
            explanation="bounded symbolic execution of the real code; every feasible path within the stated configuration "
                        "bounds is enumerated and each obligation is decided by z3 for all values of the symbolic inputs",
            paths_aborted_infeasible=agg["aborted"],
            branch_decisions_two_sided=agg["branch_decisions"],
            queries=agg["queries"],
            solver_time_s=round(agg["solver_time_s"], 2),
            max_query_s=agg["max_query_s"],
            solver_unknown=agg["unknown"],
            solver="z3 " + _z3ver(),
            tasks=len(tasks),
            per_harness=per_harness,
            obligation_groups=oblig_names,
            functions_encoded=sorted(functions),
            bounds=meta.get("bounds", {}).get(tier, meta.get("bounds", {})),
            stubs=meta.get("stubs", []),
            outside_claim=meta.get("outside", []),
            known_findings_seen=sorted(known_seen),
            counterexamples_not_reproduced=len(nonrepro),
            validation_mismatches=mism[:5],
            inconclusive=inconcl[:10],
            harness_errors=[e[:600] for e in errors[:5]],
            tree=lib.tree_id(),
        ),
        assumptions=meta.get("assumptions", []),
        wall_s=round(wall, 2),
        violations=len(viol),
    )
    os.makedirs(os.path.join(VERIF, "evidence"), exist_ok=True)
    with open(os.path.join(VERIF, "evidence", f"{prop}.json"), "w") as f:
        json.dump(ev, f, indent=1, default=str)
    print(
        f"[{prop}] tier={tier} tasks={len(tasks)} paths={agg['paths']} obligations={agg['obligations']} "
        f"discharged={agg['discharged']} unknown={agg['unknown']} validated={agg['validated']} queries={agg['queries']} "
        f"solver={agg['solver_time_s']:.1f}s wall={wall:.1f}s violations={len(viol)} nonrepro={len(nonrepro)} "
        f"inconclusive={len(inconcl)} errors={len(errors)} mismatches={len(mism)} exit={status}"
    )
    for m in (inconcl[:6] + [e[:1500] for e in errors[:3]]):
        print("  !", m)
    for m in mism[:3]:
        print("  ! validation mismatch:", json.dumps(m, default=str)[:600])
    for m in nonrepro[:3]:
        print("  ! non-reproducing counterexample:", json.dumps(m, default=str)[:900])
    return status


def _z3ver():
    import z3

    return z3.get_version_string()


def replay(path):
    from symx import engine, lib

    lib.load()
    v = json.load(open(path))
    prop, hname = v["prop"], v["harness"]
    mod = importlib.import_module(f"props.{prop}")
    fn = getattr(mod, hname)
    sx = engine.run_concrete(fn, v["cfg"], engine.inputs_to_py(v["inputs"]))
    hit = [c for c in sx.checks if c[0] == v["obligation"] and c[1] == "violated"]
    print(f"replay {path}: harness={hname} obligation={v['obligation']} cfg={v['cfg']}")
    print("  inputs:", engine.inputs_to_py(v["inputs"]))
    print("  native outcome:", sx.exc, [(c[0], c[1]) for c in sx.checks])
    if hit:
        print(f"VIOLATION property={prop} replay={path}")
        return EXIT_VIOLATION
    print("not reproduced")
    return EXIT_OK


def main(argv=None):
    ap = argparse.ArgumentParser()
    ap.add_argument("prop")
    ap.add_argument("--tier", default=os.environ.get("VERIF_TIER", "quick"))
    ap.add_argument("--replay")
    ap.add_argument("--jobs", type=int)
    ap.add_argument("--only")
    a = ap.parse_args(argv)
    seed = int(os.environ.get("VERIF_SEED", "0") or 0)
    if a.replay:
        return replay(a.replay)
    return run_property(a.prop, a.tier, seed, a.jobs, a.only)


if __name__ == "__main__":
    sys.exit(main())
