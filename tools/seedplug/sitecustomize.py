# Makes test collection identical in every pytest-xdist worker: the test-suite
# parametrises over random.random()/np.random.random() values, which otherwise
# gives each worker different test ids ("Different tests were collected").
import random

random.seed(12345)
try:
    import numpy as _np

    _np.random.seed(12345)
except Exception:
    pass
