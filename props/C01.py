"""C01 -- mesh lattice, index<->coordinate maps (DESIGN 2/C01)."""
from __future__ import annotations

import itertools
from fractions import Fraction

from symx import lib
from symx.sarray import has_sym

from .C13 import h_history as h_lattice_after_transformations  # noqa: F401  (the lattice maps after in-place / copying steps, incl. first/last centre)
from .common import DIMSETS, region_inputs

META = dict(
    bounds=dict(
        quick=dict(ndim="1..3", n_symbolic="1..64 per axis (index arithmetic, cell-size constructor)",
                   n_enumerated="each axis in {1,2,3} (lattice enumeration)", dims="default and renamed"),
        thorough=dict(ndim="1..4", n_symbolic="1..64", n_enumerated="each axis in {1..5} (<=3 axes), {1,2,3} (4 axes)",
                      dims="default and renamed", fp64="binary64 round-trip lemmas n<=8 (cvc5)"),
    ),
    stubs=["np.linspace modelled by its documented formula (end point exactly `stop`)"],
    assumptions=[
        "REAL theory: floats are exact reals; binary64 rounding only in the FP64 lemmas of the thorough tier",
        "tolerance band 2*tf*(min_edge+|p|) at region faces is left unconstrained (statement: up to the region's tolerance)",
    ],
    outside=["n > 64", "ndim > 4", "NaN/inf coordinates"],
)


def _mesh_sym_n(sx, cfg):
    df = lib.load()
    nd = cfg["ndim"]
    pmin, e, p1, p2 = region_inputs(sx, nd)
    dims = DIMSETS[cfg.get("dims", "default")][nd]
    region = df.Region(p1=p1, p2=p2, dims=dims)
    n = sx.ints("n", nd, lo=1, hi=64)
    mesh = df.Mesh(region=region, n=tuple(n) if nd > 1 or cfg.get("tuple1") else n[0])
    return df, nd, pmin, e, n, mesh


def h_index2point(sx, cfg):
    """index -> centre; centre -> index; out-of-range indices rejected"""
    df, nd, pmin, e, n, mesh = _mesh_sym_n(sx, cfg)
    idx = sx.ints("i", nd)
    inrange = sx.And(*[sx.And(idx[a] >= 0, idx[a] < n[a]) for a in range(nd)])
    try:
        pt = mesh.index2point(tuple(idx))
    except IndexError:
        sx.check("reject-only-out-of-range", sx.Not(inrange))
        return
    sx.check("accept-only-in-range", inrange)
    centre = [pmin[a] + (idx[a] + 0.5) * e[a] / n[a] for a in range(nd)]
    sx.observe("centre", pt)
    for a in range(nd):
        sx.check(f"centre[{a}]", sx.eq(pt[a], centre[a]))
    back = mesh.point2index(pt)
    sx.check("roundtrip-len", len(back) == nd)
    for a in range(nd):
        sx.check(f"roundtrip[{a}]", sx.eq(back[a], idx[a]))


def h_point2index(sx, cfg):
    """any point of the region -> in-range index of the containing cell; outside rejected"""
    df, nd, pmin, e, n, mesh = _mesh_sym_n(sx, cfg)
    p = sx.reals("p", nd)
    tf = 1e-12
    mine = e[0]
    for a in range(1, nd):
        mine = sx.min(mine, e[a])
    inside = sx.And(*[sx.And(p[a] >= pmin[a], p[a] <= pmin[a] + e[a]) for a in range(nd)])
    try:
        j = mesh.point2index(tuple(p) if nd > 1 else p[0])
    except ValueError:
        sx.check("reject-only-outside", sx.Not(inside))
        return
    sx.observe("index", list(j))
    for a in range(nd):
        band = 2 * tf * (mine + abs(p[a]))
        c = e[a] / n[a]
        lo = pmin[a] + j[a] * c
        hi = lo + c
        sx.check(f"accept-within-band[{a}]", sx.And(p[a] >= pmin[a] - band, p[a] <= pmin[a] + e[a] + band))
        sx.check(f"in-range[{a}]", sx.And(j[a] >= 0, j[a] < n[a]))
        sx.check(f"lower-face-inclusive[{a}]", lo - band <= p[a])
        sx.check(f"upper-face[{a}]", sx.Or(p[a] < hi, sx.And(sx.eq(j[a], n[a] - 1), p[a] <= pmin[a] + e[a] + band)))
    # the returned index converts back to a centre whose cell contains p (consistency of both maps)
    pt = mesh.index2point(j)
    for a in range(nd):
        c = e[a] / n[a]
        band = 2 * tf * (mine + abs(p[a]))
        sx.check(f"centre-within-half-cell[{a}]", sx.And(pt[a] - c / 2 - band <= p[a], p[a] <= pt[a] + c / 2 + band))


def h_cell_ctor(sx, cfg):
    """Mesh(region, cell=c) exists exactly when every edge is a whole number of cells (0.1 % tolerance)

    cell sizes are concrete per configuration (several scales, anisotropic, non-dyadic); position, cell count k and
    the commensurability defect d (0 <= d < c) are symbolic: edge = k*c + d."""
    df = lib.load()
    c = [Fraction(x) for x in cfg["cell"]]
    nd = len(c)
    pmin = sx.reals("pmin", nd)
    k = sx.ints("k", nd, lo=0, hi=64)
    d = sx.reals("d", nd)
    for a in range(nd):
        sx.assume(sx.And(d[a] >= 0, d[a] < float(c[a])))
    e = [k[a] * float(c[a]) + d[a] for a in range(nd)]
    for a in range(nd):
        sx.assume(e[a] > 0)
    try:
        region = df.Region(p1=pmin, p2=[pmin[a] + e[a] for a in range(nd)])
    except ValueError:
        if sx.sym:
            raise
        # native replay only: a positive edge far from the origin can be absorbed by binary64 (pmin + e == pmin); the
        # precondition e > 0 is then not representable and the sample is not comparable
        from symx.core import PathAbort

        raise PathAbort("edge absorbed by binary64 rounding")
    cf = [float(x) for x in c]
    tol = 1e-3 * min(cf)
    up = [d[a] >= cf[a] - tol for a in range(nd)]
    div = [sx.Or(d[a] <= tol, up[a]) for a in range(nd)]
    try:
        mesh = df.Mesh(region=region, cell=tuple(cf) if nd > 1 else cf[0])
    except ValueError:
        # rejected: some edge not divisible, or less than one cell
        sx.check("reject-has-reason", sx.Or(*[sx.Or(sx.Not(div[a]), sx.eq(k[a], 0)) for a in range(nd)]))
        return
    sx.observe("n", list(mesh.n))
    for a in range(nd):
        sx.check(f"accept-divisible[{a}]", div[a])
        sx.check(f"n>=1[{a}]", mesh.n[a] >= 1)
        sx.check(f"n-value[{a}]", sx.eq(mesh.n[a], sx.ite(up[a], k[a] + 1, k[a])))
    for a in range(nd):
        sx.check(f"cell*n=edge[{a}]", sx.eq(mesh.cell[a] * mesh.n[a], e[a]))


def h_cell_ctor_sign(sx, cfg):
    """non-positive cell sizes are refused (symbolic sign)"""
    df = lib.load()
    nd = cfg["ndim"]
    pmin, e, p1, p2 = region_inputs(sx, nd)
    region = df.Region(p1=p1, p2=p2)
    c = sx.reals("c", nd)
    sx.assume(sx.Or(*[c[a] <= 0 for a in range(nd)]))
    try:
        df.Mesh(region=region, cell=tuple(c) if nd > 1 else c[0])
    except ValueError:
        sx.check("refused-nonpositive", True)
    else:
        sx.check("refused-nonpositive", False)


def h_cell_ctor_types(sx, cfg):
    """malformed cell arguments are refused (concrete structure, symbolic geometry)"""
    df = lib.load()
    nd = cfg["ndim"]
    pmin, e, p1, p2 = region_inputs(sx, nd)
    region = df.Region(p1=p1, p2=p2)
    bad = {
        "wrong-length": ([e[0] / 2] * (nd + 1), ValueError),
        "string": ("abc", TypeError),
        "non-number-element": ([e[0] / 2] * (nd - 1) + ["a"], TypeError),
        "both-n-and-cell": None,
    }
    for name, spec in bad.items():
        try:
            if spec is None:
                df.Mesh(region=region, cell=[e[a] / 2 for a in range(nd)], n=[2] * nd)
            else:
                df.Mesh(region=region, cell=spec[0])
        except (ValueError, TypeError) as ex:
            sx.check(f"refused-{name}", spec is None or isinstance(ex, spec[1]))
        else:
            sx.check(f"refused-{name}", False)
    for name, nbad, exc in (("zero-n", [0] * nd, ValueError), ("float-n", [2.0] * nd, TypeError), ("neg-n", [-1] * nd, ValueError)):
        try:
            df.Mesh(region=region, n=nbad)
        except (ValueError, TypeError) as ex:
            sx.check(f"refused-{name}", isinstance(ex, exc))
        else:
            sx.check(f"refused-{name}", False)
    mesh = df.Mesh(region=region, n=[2] * nd)
    for name, idx in (("long-index", (0,) * (nd + 1)), ("float-index", None)):
        try:
            mesh.index2point(idx if idx is not None else (0.5,) * nd)
        except (IndexError, TypeError):
            sx.check(f"refused-{name}", True)
        else:
            sx.check(f"refused-{name}", False)
    try:
        mesh.point2index((pmin[0],) * (nd + 1))
    except ValueError:
        sx.check("refused-long-point", True)
    else:
        sx.check("refused-long-point", False)


def h_lattice(sx, cfg):
    """len, iteration order, per-axis centres/vertices and the coordinate field describe one lattice"""
    df = lib.load()
    n = tuple(cfg["n"])
    nd = len(n)
    pmin, e, p1, p2 = region_inputs(sx, nd)
    dims = DIMSETS[cfg.get("dims", "default")][nd]
    mesh = df.Mesh(region=df.Region(p1=p1, p2=p2, dims=dims), n=n)
    total = 1
    for v in n:
        total *= v
    sx.check("len", len(mesh) == total)
    c = [e[a] / n[a] for a in range(nd)]
    for a in range(nd):
        sx.check(f"cell[{a}]", sx.eq(mesh.cell[a], c[a]))

    def centre(idx):
        return [pmin[a] + (idx[a] + 0.5) * c[a] for a in range(nd)]

    # first dimension fastest
    expected = [tuple(reversed(t)) for t in itertools.product(*[range(v) for v in reversed(n)])]
    got = list(mesh.indices)
    sx.check("indices-order", got == expected)
    pts = list(mesh)
    sx.check("iter-count", len(pts) == total)
    for t, (idx, pt) in enumerate(zip(expected, pts)):
        sx.check(f"iter-point[{t}]", sx.eq(list(pt), centre(idx)))
    cells = mesh.cells
    verts = mesh.vertices
    sx.check("cells-fields", tuple(cells._fields) == tuple(dims) and tuple(verts._fields) == tuple(dims))
    for a in range(nd):
        ca = cells[a]
        va = verts[a]
        sx.check(f"cells-count[{a}]", len(ca) == n[a] and len(va) == n[a] + 1)
        sx.observe(f"cells{a}", ca)
        for i in range(n[a]):
            sx.check(f"cells[{a}][{i}]", sx.eq(ca[i], pmin[a] + (i + 0.5) * c[a]))
        for i in range(n[a] + 1):
            sx.check(f"vertices[{a}][{i}]", sx.eq(va[i], pmin[a] + i * c[a]))
        sx.check(f"vertices-last[{a}]", sx.eq(va[n[a]], pmin[a] + e[a]))
        # tiling: consecutive vertices bound exactly one centre, no gaps / overlaps
        for i in range(n[a]):
            sx.check(f"tiling[{a}][{i}]", sx.And(va[i] < ca[i], ca[i] < va[i + 1], sx.eq(va[i + 1] - va[i], c[a])))
    cf = mesh.coordinate_field()
    sx.check("coordfield-shape", tuple(cf.array.shape) == (*n, nd))
    sx.check("coordfield-labels", list(cf.vdims) == list(dims) and cf.vdim_mapping == dict(zip(dims, dims)))
    sx.check("coordfield-mesh", cf.mesh is mesh or cf.mesh == mesh)
    for idx in expected:
        sx.check(f"coordfield[{idx}]", sx.eq(list(cf.array[idx]), centre(idx)))


def tasks(tier):
    t = []
    nds = (1, 2, 3) if tier == "quick" else (1, 2, 3, 4)
    for nd in nds:
        for dims in ("default", "renamed"):
            t.append(dict(harness="h_index2point", cfg=dict(ndim=nd, dims=dims)))
            t.append(dict(harness="h_point2index", cfg=dict(ndim=nd, dims=dims)))
    t.append(dict(harness="h_index2point", cfg=dict(ndim=1, dims="default", tuple1=True)))
    # histories: the maps are read, the mesh is transformed (in place and copying), the maps must describe the new lattice
    from . import C13

    hist = [x for x in C13.tasks(tier) if x["harness"] == "h_history" and x["cfg"].get("obj") == "mesh" and x["cfg"].get("subregions") == "none"]
    rot_inplace = [x for x in hist if any(st.get("kind") == "rotate" and st.get("inplace") for st in x["cfg"]["steps"])]
    other = [x for x in hist if x not in rot_inplace]
    for x in ((rot_inplace[::2] + other[::4]) if tier == "quick" else hist):
        t.append(dict(harness="h_lattice_after_transformations", cfg=x["cfg"], limits=x.get("limits", {})))
    cellsets = [["1"], ["3/8"], ["1/1000000000"], ["1", "3/8"], ["7/3", "1/5"]]
    if tier != "quick":
        cellsets += [["5/1000000000", "3/1000000000", "1/1000000000"], ["1", "1", "1/3"], ["1000000", "1/7"]]
    for cs in cellsets:
        t.append(dict(harness="h_cell_ctor", cfg=dict(cell=cs)))
    for nd in (1, 2) if tier == "quick" else (1, 2, 3):
        t.append(dict(harness="h_cell_ctor_sign", cfg=dict(ndim=nd)))
    for nd in nds:
        t.append(dict(harness="h_cell_ctor_types", cfg=dict(ndim=nd)))
    if tier == "quick":
        shapes = [(1,), (3,), (2, 3), (3, 1), (2, 1, 3), (3, 2, 2)]
    else:
        shapes = [(k,) for k in range(1, 6)]
        shapes += [s for s in itertools.product(range(1, 6), repeat=2)]
        shapes += [s for s in itertools.product((1, 2, 3, 5), repeat=3)]
        shapes += [(2, 1, 3, 2), (1, 2, 2, 3), (3, 2, 1, 2)]
    for s in shapes:
        t.append(dict(harness="h_lattice", cfg=dict(n=list(s), dims="default" if sum(s) % 2 else "renamed")))
    return t
