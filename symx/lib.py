"""import the library under analysis from the working tree and install the np proxy"""
from __future__ import annotations

import importlib
import os
import subprocess
import sys

REPO_ROOT = os.environ.get("VERIF_REPO_ROOT", "/repo")
_df = None

_NP_MODULES = [
    "discretisedfield.region",
    "discretisedfield.mesh",
    "discretisedfield.field",
    "discretisedfield.operators",
    "discretisedfield.line",
    "discretisedfield.util.util",
    "discretisedfield.io",
    "discretisedfield.io.hdf5",
    "discretisedfield.io.ovf",
    "discretisedfield.io.vtk",
    "discretisedfield.tools.tools",
    "discretisedfield.field_rotator",
    "discretisedfield.plotting.mpl_field",
    "discretisedfield.plotting.util",
]


def load():
    """import discretisedfield from REPO_ROOT (never a cached copy elsewhere)"""
    global _df
    if _df is not None:
        return _df
    if REPO_ROOT not in sys.path:
        sys.path.insert(0, REPO_ROOT)
    import warnings

    warnings.filterwarnings("ignore")
    import discretisedfield as df

    assert os.path.realpath(df.__file__).startswith(os.path.realpath(REPO_ROOT) + "/"), (df.__file__, REPO_ROOT)
    from .npproxy import NP

    for name in _NP_MODULES:
        try:
            mod = importlib.import_module(name)
        except Exception:  # noqa: BLE001
            continue
        if hasattr(mod, "np"):
            mod.np = NP
    _df = df
    return df


def tree_id():
    try:
        head = subprocess.run(["git", "-C", REPO_ROOT, "rev-parse", "HEAD"], capture_output=True, text=True).stdout.strip()
        dirty = subprocess.run(["git", "-C", REPO_ROOT, "status", "--porcelain", "--", "discretisedfield"], capture_output=True, text=True).stdout.strip()
        return dict(head=head, dirty=bool(dirty), root=REPO_ROOT)
    except Exception:  # noqa: BLE001
        return dict(head="?", dirty=None, root=REPO_ROOT)
