"""symx: bounded symbolic execution of discretisedfield through NumPy object arrays"""
