"""symx core: execution context, path exploration, solver discipline.

One *run* of a harness function executes the real library code on proxy
scalars (see scalars.py).  Control-flow that depends on symbolic data ends up in
``Ctx.branch``; the explorer re-executes the harness once per feasible path
(DFS over a decision prefix, like CrossHair).  All solver calls go through
``Ctx.check_sat`` (fresh, non-incremental z3 solver per query -- the incremental
core answers `unknown` on the nonlinear (p-pmin)/cell terms, see DESIGN 1.3).
"""
from __future__ import annotations

import time
from fractions import Fraction

import z3

# --------------------------------------------------------------------------
# control exceptions (BaseException: library code catching `Exception` must
# not swallow them)


class SymxControl(BaseException):
    pass


class Unsupported(SymxControl):
    """operation on symbolic data that the engine cannot model -> inconclusive"""


class PathAbort(SymxControl):
    """path infeasible / assumption not satisfiable on this path"""


class BudgetExceeded(SymxControl):
    pass


class SolverUnknown(SymxControl):
    pass


# --------------------------------------------------------------------------
_CTX = None  # current execution context (symbolic) or None (concrete / native)


def ctx():
    return _CTX


def set_ctx(c):
    global _CTX
    _CTX = c


class Stats:
    def __init__(self):
        self.queries = 0
        self.solver_time = 0.0
        self.unknown = 0
        self.cache_hits = 0
        self.branches = 0  # two-sided decisions taken
        self.decided = 0  # branch conditions that needed the solver (one- or two-sided)
        self.max_query_s = 0.0

    def merge(self, o):
        for k in ("queries", "unknown", "cache_hits", "branches", "decided"):
            setattr(self, k, getattr(self, k) + getattr(o, k))
        self.solver_time += o.solver_time
        self.max_query_s = max(self.max_query_s, o.max_query_s)

    def as_dict(self):
        return dict(
            queries=self.queries,
            solver_time_s=round(self.solver_time, 3),
            unknown=self.unknown,
            cache_hits=self.cache_hits,
            branch_decisions=self.branches,
            conditions_decided=self.decided,
            max_query_s=round(self.max_query_s, 3),
        )


DEFAULT_TIMEOUT_MS = 20000


def fresh_check(assertions, timeout_ms=DEFAULT_TIMEOUT_MS, want_model=False, stats=None):
    """Decide satisfiability with a fresh non-incremental solver.

    returns ('sat', model) / ('unsat', None) / ('unknown', None)
    """
    s = z3.Solver()
    s.set("timeout", int(timeout_ms))
    for a in assertions:
        s.add(a)
    t0 = time.time()
    r = s.check()
    dt = time.time() - t0
    if stats is not None:
        stats.queries += 1
        stats.solver_time += dt
        stats.max_query_s = max(stats.max_query_s, dt)
    if r == z3.sat:
        return "sat", (s.model() if want_model else None)
    if r == z3.unsat:
        return "unsat", None
    # second chance with the nlsat/qfnra tactic portfolio
    t0 = time.time()
    try:
        g = z3.Goal()
        for a in assertions:
            g.add(a)
        tac = z3.TryFor(z3.Then("simplify", "purify-arith", "qfnra-nlsat"), int(timeout_ms))
        s2 = tac.solver()
        for a in assertions:
            s2.add(a)
        r2 = s2.check()
    except z3.Z3Exception:
        r2 = z3.unknown
    dt = time.time() - t0
    if stats is not None:
        stats.queries += 1
        stats.solver_time += dt
    if r2 == z3.sat:
        return "sat", (s2.model() if want_model else None)
    if r2 == z3.unsat:
        return "unsat", None
    if stats is not None:
        stats.unknown += 1
    return "unknown", None


def term_vars(t, cache):
    """frozenset of uninterpreted constant names occurring in t (memoised; cache keeps the AST alive)"""
    key = ("V", t.get_id())
    hit = cache.get(key)
    if hit is not None and hit[1].eq(t):
        return hit[0]
    out = set()
    seen = set()
    stack = [t]
    while stack:
        x = stack.pop()
        xid = x.get_id()
        if xid in seen:
            continue
        seen.add(xid)
        if z3.is_const(x):
            if x.decl().kind() == z3.Z3_OP_UNINTERPRETED:
                out.add(x.decl().name())
        else:
            stack.extend(x.children())
    fs = frozenset(out)
    cache[key] = (fs, t)
    return fs


class Ctx:
    """state of one path execution"""

    def __init__(self, prefix, stats, cache, max_branches=400, timeout_ms=DEFAULT_TIMEOUT_MS, theory="REAL"):
        self.prefix = list(prefix)  # decisions to replay
        self.decisions = []  # (taken: bool, other_side_feasible: bool)
        self.pc = []  # list of z3 BoolRef
        self.stats = stats
        self.cache = cache  # shared across paths of one exploration
        self.max_branches = max_branches
        self.timeout_ms = timeout_ms
        self.theory = theory
        self.divisors = []  # (guard, divisor term) side conditions
        self.inputs = {}  # name -> z3 const (declared symbolic inputs)
        self.fresh_id = 0
        self.aux = []  # auxiliary definitions (sqrt encodings ...) -- part of pc
        self.notes = []
        self.cur_guard = None

    # -- solver ---------------------------------------------------------
    def pc_key(self):
        return len(self.pc)

    def feasible(self, cond):
        """is pc /\\ cond satisfiable?  True / False;  raises SolverUnknown

        Only the conjuncts of the pc that (transitively) share a symbol with `cond` are sent to the solver
        (constraint independence: the pc is satisfiable by construction, so the rest cannot matter)."""
        rel = self.relevant(cond)
        key = ("F", tuple(c.get_id() for c in rel), cond.get_id())
        hit = self.cache.get(key)
        if hit is not None:
            self.stats.cache_hits += 1
            return hit[0]
        r, _ = fresh_check(rel + [cond], self.timeout_ms, stats=self.stats)
        if r == "unknown":
            raise SolverUnknown(f"feasibility unknown: {str(cond)[:200]}")
        val = r == "sat"
        # keep ASTs alive: z3 recycles ids
        self.cache[key] = (val, rel, cond)
        return val

    def relevant(self, *terms):
        """conjuncts of the pc sharing symbols (transitively) with the given terms, in pc order"""
        want = set()
        for t in terms:
            want |= term_vars(t, self.cache)
        if not want:
            return []
        pcv = [term_vars(c, self.cache) for c in self.pc]
        chosen = [False] * len(self.pc)
        changed = True
        while changed:
            changed = False
            for i, vs in enumerate(pcv):
                if not chosen[i] and vs & want:
                    chosen[i] = True
                    if not vs <= want:
                        want |= vs
                        changed = True
        return [c for c, ch in zip(self.pc, chosen) if ch]

    def add_pc(self, cond):
        self.pc.append(cond)

    def add_aux(self, cond, tag=None):
        """definitional constraint for a fresh symbol (never restricts inputs)"""
        self.pc.append(cond)
        self.aux.append((cond, tag))

    def note_divisor(self, b):
        self.divisors.append((self.cur_guard, b))

    def check_side_conditions(self):
        """no division by a possibly-zero divisor on this path (z3 '/' is total)"""
        seen = set()
        alts = []
        for g, b in self.divisors:
            k = (None if g is None else g.get_id(), b.get_id())
            if k in seen:
                continue
            seen.add(k)
            alts.append(b == 0 if g is None else z3.And(g, b == 0))
        if not alts:
            return None
        # quick filter: simplification against nothing; then one query
        r, m = fresh_check(self.pc + [z3.Or(*alts)], self.timeout_ms, want_model=True, stats=self.stats)
        if r == "unsat":
            return None
        if r == "unknown":
            # the disjunction over all divisors was too much at once: decide them one by one on their slice of the path condition
            for a in alts:
                ri, _ = fresh_check(self.relevant(a) + [a], self.timeout_ms, stats=self.stats)
                if ri == "sat":
                    return a
                if ri == "unknown":
                    raise SolverUnknown("division side condition")
            return None
        for a in alts:
            if z3.is_true(m.eval(a, model_completion=True)):
                return a
        return alts[0]

    # -- branching --------------------------------------------------------
    def branch(self, cond):
        """decide a symbolic boolean; returns python bool and extends pc"""
        cond = z3.simplify(cond)
        if z3.is_true(cond):
            return True
        if z3.is_false(cond):
            return False
        ncond = z3.simplify(z3.Not(cond))
        self.stats.decided += 1
        can_t = self.feasible(cond)
        can_f = self.feasible(ncond) if can_t else True
        if can_t and can_f:
            i = len(self.decisions)
            if i < len(self.prefix):
                take = self.prefix[i]
            else:
                if i >= self.max_branches:
                    raise BudgetExceeded("max branches per path")
                take = True
                self.prefix.append(True)
                self.stats.branches += 1
            self.decisions.append(take)
            self.add_pc(cond if take else ncond)
            return take
        if not can_t and not can_f:
            raise PathAbort("path condition infeasible")
        # one-sided: implied by pc, nothing to record
        return can_t

    def next_prefix(self):
        """prefix for the next unexplored path after this one, or None"""
        p = list(self.decisions)
        while p:
            last = p.pop()
            if last is True:
                return p + [False]
        return None

    # -- concretisation -------------------------------------------------------
    def concretize_int(self, term, fanout=8):
        """python int for a z3 Int term: unique value or fork on values"""
        term = z3.simplify(term)
        if z3.is_int_value(term):
            return term.as_long()
        for _ in range(fanout):
            r, m = fresh_check(self.pc, self.timeout_ms, want_model=True, stats=self.stats)
            if r == "unsat":
                raise PathAbort("infeasible at concretize")
            if r == "unknown":
                raise SolverUnknown("concretize")
            v = m.eval(term, model_completion=True)
            if not z3.is_int_value(v):
                # the evaluator leaves ToInt of an algebraic (irrational) model value, or x/0 of completed-away variables,
                # unevaluated.  Only a candidate value is needed here (branch() below decides its feasibility with the solver):
                # evaluate under the model with algebraic numbers replaced by close rationals
                subs = []
                for d in m.decls():
                    if d.arity() == 0:
                        val = m[d]
                        if z3.is_algebraic_value(val):
                            val = val.approx(30)
                        subs.append((d(), val))
                v = z3.simplify(z3.substitute(term, *subs)) if subs else v
            if not z3.is_int_value(v):
                kv = z3.Int("__concretise")
                r, m = fresh_check(list(self.pc) + [kv == term], self.timeout_ms, want_model=True, stats=self.stats)
                if r == "unknown":
                    raise SolverUnknown("concretize")
                v = m.eval(kv, model_completion=True) if r == "sat" else None
                if v is None or not z3.is_int_value(v):
                    raise Unsupported(f"cannot concretise {term} [second query: {r}, value {v}]")
            v = v.as_long()
            if self.branch(term == v):
                return v
        raise BudgetExceeded(f"concretisation fan-out > {fanout} for {str(term)[:80]}")

    def fresh(self, base, sort="real"):
        self.fresh_id += 1
        name = f"{base}!{self.fresh_id}"
        if sort == "real":
            return z3.Real(name)
        if sort == "int":
            return z3.Int(name)
        return z3.Bool(name)


# --------------------------------------------------------------------------
def val_to_py(v):
    """z3 numeral / bool -> python"""
    if z3.is_int_value(v):
        return v.as_long()
    if z3.is_rational_value(v):
        return Fraction(v.numerator_as_long(), v.denominator_as_long())
    if z3.is_algebraic_value(v):
        a = v.approx(30)
        return Fraction(a.numerator_as_long(), a.denominator_as_long())
    if z3.is_true(v):
        return True
    if z3.is_false(v):
        return False
    raise ValueError(f"not a value: {v}")
