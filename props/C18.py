"""C18 -- arbitrary rotations rotate the vectors and resample the positions consistently (DESIGN 2/C18, reduced scope)."""
from __future__ import annotations

import contextlib
import itertools
from fractions import Fraction as F

import numpy as np

from symx import lib, stubs

META = dict(
    bounds=dict(
        quick=dict(also="default resolution for Euler-angle quarter turns on decimal cubic cells",
                   meshes="(4,4,4), (3,5,4), (4,6,3), (3,3,2) with concrete anisotropic cells", rotations="quarter turns, (3,4,5) and (5,12,13) rotations about each axis, products of two",
                   nvdim="1 and 3", mapping="identity, swap, both cyclic permutations", values="symbolic per cell; uniform and linear fields with symbolic coefficients",
                   new_region="symbolic 3x3 matrix (unconstrained) and symbolic edges", target_n="explicit"),
        thorough=dict(meshes="as quick plus (4,4,3)", rotations="as quick plus three-fold products and non-axis rotations built from rational quaternions", nvdim="1 and 3", mapping="all six permutations",
                      values="as quick", new_region="as quick", target_n="explicit and default"),
    ),
    stubs=["scipy Rotation: 3x3 matrix (product, transpose as inverse, apply); other parametrisations converted by the real SciPy on concrete arguments",
           "scipy RegularGridInterpolator: multilinear interpolation on concrete grids with symbolic node values, fill value outside", "native replays use the real SciPy"],
    assumptions=["REAL theory for the cell values; geometry and rotation matrices of the resampling checks are concrete (rational) -- the cell a back-rotated point falls in is a "
                 "nonlinear function of the rotation, so 'all rotations' is not reachable", "cell values in [-1, 1]; two linear forms in the cell values are compared within 1e-9 * (number of values) "
                 "(concrete float coefficients on both sides differ by rounding)"],
    outside=["the quantifier over all rotations for the resampling", "cells within one cell of the boundary of the back-rotated region (edge padding)", "default target resolution beyond a native sanity check"],
)


@contextlib.contextmanager
def _env(sx):
    import discretisedfield.field_rotator as frm

    if sx.sym:
        with stubs.rotator_stub(frm):
            yield
    else:
        yield


def _axis_rot(axis, c, s):
    a, b = [(1, 2), (2, 0), (0, 1)][axis]
    M = [[F(1) if i == j else F(0) for j in range(3)] for i in range(3)]
    M[a][a], M[a][b], M[b][a], M[b][b] = c, -s, s, c
    return M


def _matmul(A, B):
    return [[sum(A[i][k] * B[k][j] for k in range(3)) for j in range(3)] for i in range(3)]


ROTS = {
    "qx": _axis_rot(0, F(0), F(1)), "qy": _axis_rot(1, F(0), F(1)), "qz": _axis_rot(2, F(0), F(1)), "qz3": _axis_rot(2, F(0), F(-1)), "hz": _axis_rot(2, F(-1), F(0)),
    "x345": _axis_rot(0, F(4, 5), F(3, 5)), "y345": _axis_rot(1, F(3, 5), F(4, 5)), "z345": _axis_rot(2, F(4, 5), F(-3, 5)), "z51213": _axis_rot(2, F(12, 13), F(5, 13)),
    "x51213": _axis_rot(0, F(5, 13), F(-12, 13)),
}
ROTS["qx*qz"] = _matmul(ROTS["qx"], ROTS["qz"])
ROTS["z345*x345"] = _matmul(ROTS["z345"], ROTS["x345"])
ROTS["y345*z51213"] = _matmul(ROTS["y345"], ROTS["z51213"])
ROTS["x345*y345*z345"] = _matmul(ROTS["x345"], _matmul(ROTS["y345"], ROTS["z345"]))


def _fm(M):
    return [[float(x) for x in row] for row in M]


def _mesh(df, cfg):
    n = tuple(cfg["n"])
    p1 = cfg.get("p1", [0.0, -1.0, 2.0])
    cell = cfg.get("cell", [1.0, 0.5, 2.0])
    p2 = [p1[a] + n[a] * cell[a] for a in range(3)]
    return df.Mesh(p1=tuple(p1), p2=tuple(p2), n=n), p1, p2, cell, n


def _setup_field(sx, df, cfg, mesh, n):
    nv = cfg["nvdim"]
    arr = sx.real_array("v", (*n, nv))
    if nv == 3:
        perm = cfg.get("perm", [0, 1, 2])  # component c lives along axis perm[c]
        labels = cfg.get("labels", ["a", "b", "c"])
        mapping = {labels[c]: "xyz"[perm[c]] for c in range(3)}
        f = df.Field(mesh, nvdim=3, value=arr, vdims=labels, vdim_mapping=mapping)
    else:
        perm = None
        f = df.Field(mesh, nvdim=1, value=arr)
    return f, arr, perm


def _trilinear(n, p1, cell, q):
    """weights {cell index: weight} of linear interpolation between cell centres at point q (exact rationals); None if q is
    not at least one cell inside the region"""
    idx, w = [], []
    for a in range(3):
        lo, hi = F(p1[a]) + F(cell[a]), F(p1[a]) + (n[a] - 1) * F(cell[a])
        if not (lo <= q[a] <= hi):
            return None
        t = (q[a] - F(p1[a])) / F(cell[a]) - F(1, 2)  # position in units of cells, relative to the first centre
        i = int(t // 1)
        i = min(max(i, 0), n[a] - 2) if n[a] > 1 else 0
        idx.append(i)
        w.append(t - i)
    out = {}
    for corner in itertools.product((0, 1), repeat=3):
        wt = F(1)
        for a, c in enumerate(corner):
            wt *= w[a] if c else (1 - w[a])
        if wt != 0:
            key = tuple(min(idx[a] + corner[a], n[a] - 1) for a in range(3))
            out[key] = out.get(key, F(0)) + wt
    return out


def _outside(n, p1, cell, q):
    return any(q[a] < F(p1[a]) - F(cell[a]) / 100 or q[a] > F(p1[a]) + n[a] * F(cell[a]) + F(cell[a]) / 100 for a in range(3))


def _expected_cells(Q, n, p1, cell, new_mesh):
    """for every cell of the new mesh: ('interior', weights) / ('outside', None) / ('edge', None)"""
    centre = [F(p1[a]) + F(n[a]) * F(cell[a]) / 2 for a in range(3)]
    nn = tuple(int(x) for x in new_mesh.n)
    out = {}
    npmin = [F(float(x)) for x in new_mesh.region.pmin]
    ncell = [F(float(x)) for x in new_mesh.cell]
    for J in np.ndindex(*nn):
        p = [npmin[a] + (J[a] + F(1, 2)) * ncell[a] - centre[a] for a in range(3)]
        q = [sum(Q[k][a] * p[k] for k in range(3)) + centre[a] for a in range(3)]  # Q^T p
        w = _trilinear(n, p1, cell, q)
        if w is not None:
            out[J] = ("interior", w)
        elif _outside(n, p1, cell, q):
            out[J] = ("outside", None)
        else:
            out[J] = ("edge", None)
    return out


def _bounded(sx, values):
    """cell values are taken from [-1, 1] (a scale: every map checked here is homogeneous of degree one); returns the sum bound"""
    flat = list(np.asarray(values, dtype=object).flat) if not isinstance(values, list) else list(values)
    sx.assume(sx.And(*[sx.And(x >= -1.0, x <= 1.0) for x in flat]))
    return float(len(flat))


def _near(sx, got, want, mags):
    tol = 1e-9 * mags + 1e-300
    return sx.And(got - want <= tol, want - got <= tol)


def h_resample(sx, cfg):
    """concrete rational rotation, symbolic values: Q applied to the linear interpolation inside, zero outside"""
    df = lib.load()
    mesh, p1, p2, cell, n = _mesh(df, cfg)
    f, arr, perm = _setup_field(sx, df, cfg, mesh, n)
    nv = cfg["nvdim"]
    Q = ROTS[cfg["rot"]]
    newn = cfg.get("newn")
    with _env(sx):
        fr = df.FieldRotator(f)
        fr.rotate("from_matrix", _fm(Q), n=tuple(newn) if newn else None)
        g = fr.field
    sx.check("meta", g.nvdim == nv and g.vdims == f.vdims and dict(g.vdim_mapping) == dict(f.vdim_mapping))
    # bounding box of the rotated region, same centre
    centre = [F(p1[a]) + F(n[a]) * F(cell[a]) / 2 for a in range(3)]
    half = [sum(abs(Q[i][j]) * F(n[j]) * F(cell[j]) for j in range(3)) / 2 for i in range(3)]
    okb = all(abs(float(g.mesh.region.pmin[a]) - float(centre[a] - half[a])) <= 1e-9 * (1 + abs(float(centre[a])) + float(half[a])) and
              abs(float(g.mesh.region.pmax[a]) - float(centre[a] + half[a])) <= 1e-9 * (1 + abs(float(centre[a])) + float(half[a])) for a in range(3))
    sx.check("bounding-box-same-centre", bool(okb))
    if newn:
        sx.check("requested-n", tuple(int(x) for x in g.mesh.n) == tuple(newn))
    cells = _expected_cells(Q, n, p1, cell, g.mesh)
    counts = {k: sum(1 for v in cells.values() if v[0] == k) for k in ("interior", "outside", "edge")}
    sx.observe("cell-classes", [counts["interior"], counts["outside"], counts["edge"]])
    mags = _bounded(sx, arr)
    for J, (kind, w) in cells.items():
        if kind == "edge":
            continue
        for comp in range(nv):
            got = g.array[J + (comp,)]
            if kind == "outside":
                sx.check(f"outside-zero{J}[{comp}]", sx.eq(got, 0.0, scale=0.0))
                continue
            if nv == 1:
                want = 0.0
                for key, wt in w.items():
                    want = want + float(wt) * arr[key + (0,)]
            else:
                # component comp lives along axis perm[comp]; (Q v)_axis = sum_b Q[axis][b] v_b with v_b the component mapped to axis b
                inv = {perm[c]: c for c in range(3)}
                want = 0.0
                for b in range(3):
                    coef = Q[perm[comp]][b]
                    if coef == 0:
                        continue
                    for key, wt in w.items():
                        want = want + float(coef * wt) * arr[key + (inv[b],)]
            sx.check(f"interior{J}[{comp}]", _near(sx, got, want, mags))
    sx.check("some-checked-cell", counts["interior"] + counts["outside"] > 0)
    sx.check("original-untouched", sx.eq(f.array, arr, scale=0.0))


def h_special(sx, cfg):
    """uniform fields become Q v; linear scalar fields are reproduced exactly (symbolic coefficients)"""
    df = lib.load()
    mesh, p1, p2, cell, n = _mesh(df, cfg)
    Q = ROTS[cfg["rot"]]
    newn = tuple(cfg["newn"])
    kind = cfg["kind"]
    if kind == "uniform":
        v = sx.reals("u", 3)
        perm = cfg.get("perm", [0, 1, 2])
        labels = ["a", "b", "c"]
        f = df.Field(mesh, nvdim=3, value=tuple(v), vdims=labels, vdim_mapping={labels[c]: "xyz"[perm[c]] for c in range(3)})
    else:
        co = sx.reals("k", 4)
        f = df.Field(mesh, nvdim=1, value=lambda p: co[0] + co[1] * p[0] + co[2] * p[1] + co[3] * p[2])
    with _env(sx):
        fr = df.FieldRotator(f)
        fr.rotate("from_matrix", _fm(Q), n=newn)
        g = fr.field
    cells = _expected_cells(Q, n, p1, cell, g.mesh)
    centre = [F(p1[a]) + F(n[a]) * F(cell[a]) / 2 for a in range(3)]
    npmin = [F(float(x)) for x in g.mesh.region.pmin]
    ncell = [F(float(x)) for x in g.mesh.cell]
    mags = _bounded(sx, list(v) if kind == "uniform" else list(co)) * (1 + max(abs(float(x)) for x in list(p1) + list(p2)))
    for J, (cls, w) in cells.items():
        if cls != "interior":
            if cls == "outside":
                for comp in range(g.nvdim):
                    sx.check(f"outside-zero{J}[{comp}]", sx.eq(g.array[J + (comp,)], 0.0, scale=0.0))
            continue
        if kind == "uniform":
            inv = {perm[c]: c for c in range(3)}
            for comp in range(3):
                want = 0.0
                for b in range(3):
                    want = want + float(Q[perm[comp]][b]) * v[inv[b]]
                sx.check(f"uniform-becomes-Qv{J}[{comp}]", _near(sx, g.array[J + (comp,)], want, mags))
        else:
            p = [npmin[a] + (J[a] + F(1, 2)) * ncell[a] - centre[a] for a in range(3)]
            q = [float(sum(Q[k][a] * p[k] for k in range(3)) + centre[a]) for a in range(3)]
            want = co[0] + co[1] * q[0] + co[2] * q[1] + co[3] * q[2]
            sx.check(f"linear-reproduced{J}", _near(sx, g.array[J + (0,)], want, mags))
    sx.check("some-interior-cell", any(c[0] == "interior" for c in cells.values()))


def h_compose(sx, cfg):
    """successive rotations compose (later ones applied after earlier ones, always from the original); clearing restores the original"""
    df = lib.load()
    mesh, p1, p2, cell, n = _mesh(df, cfg)
    f, arr, perm = _setup_field(sx, df, cfg, mesh, n)
    Q1, Q2 = ROTS[cfg["rot1"]], ROTS[cfg["rot2"]]
    newn = tuple(cfg["newn"])
    with _env(sx):
        fr = df.FieldRotator(f)
        fr.rotate("from_matrix", _fm(Q1), n=newn)
        mid = fr.field
        fr.rotate("from_matrix", _fm(Q2), n=newn)
        two = fr.field
        one = df.FieldRotator(f)
        one.rotate("from_matrix", _fm(_matmul(Q2, Q1)), n=newn)
        ref = one.field
        fr.clear_rotation()
        cleared = fr.field
    sx.check("intermediate-is-a-field", mid is not two and mid.nvdim == f.nvdim)
    same_mesh = bool(np.allclose(np.asarray(two.mesh.region.pmin, dtype=float), np.asarray(ref.mesh.region.pmin, dtype=float), rtol=1e-12, atol=1e-12)) and \
        bool(np.allclose(np.asarray(two.mesh.region.pmax, dtype=float), np.asarray(ref.mesh.region.pmax, dtype=float), rtol=1e-12, atol=1e-12))
    sx.check("composed-region", same_mesh and tuple(int(x) for x in two.mesh.n) == tuple(int(x) for x in ref.mesh.n))
    mags = _bounded(sx, arr)
    if same_mesh:
        for J in np.ndindex(*np.shape(two.array)):
            sx.check(f"two-steps-equal-product{J}", _near(sx, two.array[J], ref.array[J], mags))
    sx.check("clear-restores-original", cleared is f)
    sx.check("original-untouched", sx.eq(f.array, arr, scale=0.0))
    if not sx.sym and cfg.get("noncommuting"):
        # sanity witness that the two orders differ at all (on fixed non-trivial data: a path witness may be the zero field)
        rng = np.random.default_rng(11)
        f2 = df.Field(mesh, nvdim=f.nvdim, value=rng.normal(size=np.shape(f.array)))
        with _env(sx):
            ab = df.FieldRotator(f2)
            ab.rotate("from_matrix", _fm(Q1), n=newn)
            ab.rotate("from_matrix", _fm(Q2), n=newn)
            ba = df.FieldRotator(f2)
            ba.rotate("from_matrix", _fm(_matmul(Q1, Q2)), n=newn)
        sx.check("order-matters-witness", not (np.shape(ba.field.array) == np.shape(ab.field.array) and np.allclose(ba.field.array, ab.field.array)))


def h_region(sx, cfg):
    """new region: same centre; contains every rotated corner; every face is touched by a corner (symbolic, unconstrained matrix)"""
    df = lib.load()
    import discretisedfield.field_rotator as frm

    pmin = sx.reals("pmin", 3)
    e = sx.reals("e", 3)
    for x in e:
        sx.assume(x > 0)
    mesh = df.Mesh(p1=pmin, p2=[pmin[a] + e[a] for a in range(3)], n=(1, 2, 1))
    f = df.Field(mesh, nvdim=1, value=0.0)
    M = [[sx.real(f"m{i}{j}") for j in range(3)] for i in range(3)]
    for i in range(3):
        sx.assume(sx.Or(*[sx.ne(M[i][j], 0) for j in range(3)]))  # no zero row: the image has a positive extent along every axis
    with _env(sx):
        fr = df.FieldRotator(f)
        if sx.sym:
            fr._rotation = stubs.RotStub(M)
        else:
            # an arbitrary real matrix is not a SciPy rotation: use the same linear map through a minimal stand-in
            fr._rotation = stubs.RotStub(np.array(M, dtype=float))
        reg = fr._calculate_new_region()
    centre = [pmin[a] + e[a] / 2 for a in range(3)]
    for a in range(3):
        sx.check(f"same-centre[{a}]", sx.eq(reg.pmin[a] + reg.pmax[a], 2 * centre[a]))
    corners = list(itertools.product((-1, 1), repeat=3))
    for a in range(3):
        touch_hi, touch_lo = [], []
        for s in corners:
            img = centre[a]
            for j in range(3):
                img = img + M[a][j] * (s[j] * e[j] / 2)
            sx.check(f"corner{s}-inside[{a}]", sx.And(sx.ge(img, reg.pmin[a]), sx.le(img, reg.pmax[a])))
            touch_hi.append(sx.eq(img, reg.pmax[a]))
            touch_lo.append(sx.eq(img, reg.pmin[a]))
        sx.check(f"face-touched-upper[{a}]", sx.Or(*touch_hi))
        sx.check(f"face-touched-lower[{a}]", sx.Or(*touch_lo))


def h_quarter(sx, cfg):
    """cubic cells: a quarter turn about a coordinate axis coincides with the lattice rotation (rotate90) of C12"""
    df = lib.load()
    n = tuple(cfg["n"])
    c = cfg.get("c", 0.5)
    p1 = cfg.get("p1", [1.0, -2.0, 0.5])
    mesh = df.Mesh(p1=tuple(p1), p2=tuple(p1[a] + n[a] * c for a in range(3)), n=n)
    nv = cfg["nvdim"]
    arr = sx.real_array("v", (*n, nv))
    f = df.Field(mesh, nvdim=nv, value=arr)
    axis = cfg["axis"]
    a, b = [(1, 2), (2, 0), (0, 1)][axis]
    Q = ROTS[["qx", "qy", "qz"][axis]]
    with _env(sx):
        fr = df.FieldRotator(f)
        newn = list(n)
        newn[a], newn[b] = n[b], n[a]
        if cfg.get("default_n"):
            # the rotator chooses the resolution (cubic cells keep their size); the quarter turn is given the usual way, as an
            # Euler angle, so its matrix carries SciPy's rounding (entries of order 1e-17 instead of 0)
            fr.rotate("from_euler", seq="xyz"[axis], angles=90, degrees=True)
        else:
            fr.rotate("from_matrix", _fm(Q), n=tuple(newn))
        g = fr.field
    h = f.rotate90("xyz"[a], "xyz"[b], k=1)
    sx.check("same-n", tuple(int(x) for x in g.mesh.n) == tuple(int(x) for x in h.mesh.n))
    sx.check("same-region", bool(np.allclose(np.asarray(g.mesh.region.pmin, dtype=float), np.asarray(h.mesh.region.pmin, dtype=float), rtol=1e-12, atol=1e-12)) and
             bool(np.allclose(np.asarray(g.mesh.region.pmax, dtype=float), np.asarray(h.mesh.region.pmax, dtype=float), rtol=1e-12, atol=1e-12)))
    mags = _bounded(sx, arr)
    if np.shape(g.array) == np.shape(h.array):
        for J in np.ndindex(*np.shape(g.array)):
            sx.check(f"equals-rotate90{J}", _near(sx, g.array[J], h.array[J], mags))


def h_methods(sx, cfg):
    """rotations given as quaternion, rotation vector, Euler angles or vector alignment describe the intended rotation (native, real SciPy)"""
    df = lib.load()
    with sx.native():
        from scipy.spatial.transform import Rotation as R

        mesh, p1, p2, cell, n = _mesh(df, cfg)
        rng = np.random.default_rng(9)
        v = rng.normal(size=3)
        f = df.Field(mesh, nvdim=3, value=tuple(v))
        newn = tuple(cfg["newn"])
        th = 0.7
        cases = {
            "from_quat": (dict(args=([0.0, 0.0, np.sin(th / 2), np.cos(th / 2)],)), R.from_euler("z", th).as_matrix()),
            "from_rotvec": (dict(args=([0.0, th, 0.0],)), R.from_euler("y", th).as_matrix()),
            "from_euler": (dict(kwargs=dict(seq="x", angles=th)), R.from_euler("x", th).as_matrix()),
            "from_matrix": (dict(args=(R.from_euler("zx", [0.3, 1.9]).as_matrix(),)), R.from_euler("zx", [0.3, 1.9]).as_matrix()),
        }
        for name, (call, M) in cases.items():
            fr = df.FieldRotator(f)
            fr.rotate(name, *call.get("args", ()), n=newn, **call.get("kwargs", {}))
            g = fr.field
            cells = np.array([np.linalg.norm(g.array[J]) > 0 for J in np.ndindex(*newn)])
            vals = np.array([g.array[J] for J in np.ndindex(*newn)])[cells]
            inner = vals[np.isclose(np.linalg.norm(vals, axis=1), np.linalg.norm(v), rtol=1e-9)]
            sx.check(f"{name}-uniform-becomes-Qv", len(inner) > 0 and bool(np.allclose(inner, M @ v, rtol=1e-9, atol=1e-12)))
        # vector alignment, acute and obtuse pairs: initial is rotated onto final about their cross product
        for tag, ini, fin in (("acute", [1.0, 0.0, 0.0], [1.0, 1.0, 0.0]), ("obtuse", [1.0, 0.2, 0.0], [-1.0, 0.5, 0.3]), ("right", [0.0, 0.0, 2.0], [3.0, 0.0, 0.0])):
            ini, fin = np.array(ini), np.array(fin)
            fr = df.FieldRotator(df.Field(mesh, nvdim=3, value=tuple(ini)))
            fr.rotate("align_vector", initial=ini, final=fin, n=newn)
            g = fr.field
            vals = np.array([g.array[J] for J in np.ndindex(*newn)])
            full = vals[np.isclose(np.linalg.norm(vals, axis=1), np.linalg.norm(ini), rtol=1e-9)]
            want = fin / np.linalg.norm(fin) * np.linalg.norm(ini)
            sx.check(f"align-{tag}-initial-onto-final", len(full) > 0 and bool(np.allclose(full, want, rtol=1e-9, atol=1e-12)))
            fr.rotate("align_vector", initial=fin, final=ini, n=tuple(n))
            back = fr.field
            vb = np.array([back.array[J] for J in np.ndindex(*n)])
            fullb = vb[np.isclose(np.linalg.norm(vb, axis=1), np.linalg.norm(ini), rtol=1e-9)]
            sx.check(f"align-{tag}-and-back-is-identity", len(fullb) > 0 and bool(np.allclose(fullb, ini, rtol=1e-9, atol=1e-12)))
        # nanometre-scale mesh: cells whose back-rotated centre lies outside the region carry zero
        nm = df.Mesh(p1=(0, 0, 0), p2=(4e-9, 3e-9, 2e-9), n=(4, 3, 2))
        fnm = df.Field(nm, nvdim=1, value=5.0)
        fr = df.FieldRotator(fnm)
        fr.rotate("from_euler", seq="z", angles=0.6, n=(8, 8, 2))
        g = fr.field
        Rm = R.from_euler("z", 0.6).as_matrix()
        c = nm.region.center
        bad = 0
        for J in np.ndindex(8, 8, 2):
            p = np.array(g.mesh.index2point(J)) - c
            q = Rm.T @ p + c
            out = np.any(q < nm.region.pmin - 0.01 * nm.cell) or np.any(q > nm.region.pmax + 0.01 * nm.cell)
            if out and g.array[J + (0,)] != 0:
                bad += 1
        sx.check("nanometre-mesh-outside-cells-are-zero", bad == 0, bad=bad)
        # integer-dtype fields: the rotated / interpolated values are not truncated
        mi = df.Mesh(p1=(0, 0, 0), p2=(4, 4, 4), n=(4, 4, 4))
        fi = df.Field(mi, nvdim=3, value=(3, -4, 12), dtype=np.int64)
        fr = df.FieldRotator(fi)
        fr.rotate("from_matrix", [[1, 0, 0], [0, 0.8, -0.6], [0, 0.6, 0.8]], n=(4, 5, 5))
        vals = np.array([fr.field.array[J] for J in np.ndindex(4, 5, 5)], dtype=float)
        full = vals[np.isclose(np.linalg.norm(vals, axis=1), 13.0, rtol=1e-9)]
        sx.check("integer-dtype-uniform-becomes-Qv", len(full) > 0 and bool(np.allclose(full, [3.0, -4 * 0.8 - 12 * 0.6, -4 * 0.6 + 12 * 0.8], rtol=1e-9)), got=str(vals[len(vals) // 2]))
        fs = df.Field(mi, nvdim=1, value=lambda p: int(2 * p[0] - 3 * p[1] + 5 * p[2]), dtype=np.int64)
        fr = df.FieldRotator(fs)
        fr.rotate("from_matrix", [[0, -1, 0], [1, 0, 0], [0, 0, 1]], n=(4, 4, 4))
        sx.check("integer-dtype-quarter-turn-equals-rotate90", bool(np.allclose(np.asarray(fr.field.array, dtype=float), np.asarray(fs.rotate90("x", "y").array, dtype=float), rtol=1e-9, atol=1e-9)))
        # default target resolution: accepted and of comparable cell volume
        fr = df.FieldRotator(f)
        fr.rotate("from_euler", seq="z", angles=0.4)
        sx.check("default-n-accepted", fr.field.mesh.n.min() >= 1)


def h_refuse(sx, cfg):
    df = lib.load()
    m3 = df.Mesh(p1=(0, 0, 0), p2=(2, 2, 2), n=(2, 2, 2))
    m2 = df.Mesh(p1=(0, 0), p2=(2, 2), n=(2, 2))
    v = sx.real("v")
    cases = [
        ("nvdim-2", lambda: df.FieldRotator(df.Field(m3, nvdim=2, value=(v, v))), ValueError),
        ("nvdim-4", lambda: df.FieldRotator(df.Field(m3, nvdim=4, value=(v, v, v, v))), ValueError),
        ("ndim-2", lambda: df.FieldRotator(df.Field(m2, nvdim=1, value=v)), ValueError),
        ("no-mapping", lambda: df.FieldRotator(df.Field(m3, nvdim=3, value=(v, v, v), vdim_mapping={})), ValueError),
        ("mapping-onto-non-axis", lambda: df.FieldRotator(df.Field(m3, nvdim=3, value=(v, v, v), vdim_mapping={"x": "x", "y": "y", "z": "q"})), ValueError),
        ("unknown-method", lambda: df.FieldRotator(df.Field(m3, nvdim=1, value=v)).rotate("from_nothing", 1.0), ValueError),
    ]
    with _env(sx):
        for name, call, exc in cases:
            try:
                call()
            except exc:
                sx.check(name, True)
            except Exception as ex:  # noqa: BLE001
                sx.check(name, False, exc=f"{type(ex).__name__}: {ex}")
            else:
                sx.check(name, False, exc="accepted")


def tasks(tier):
    q = tier == "quick"
    t = []
    big = dict(timeout_ms=60000, wall_budget=1500)
    perms = [[0, 1, 2], [1, 0, 2], [1, 2, 0], [2, 0, 1]] if q else [list(p) for p in itertools.permutations(range(3))]
    rots = ["qz", "x345", "y345", "z51213", "qx*qz", "z345*x345"] if q else list(ROTS)
    i = 0
    for n, newn in (((4, 4, 4), (6, 6, 5)), ((3, 5, 4), (5, 6, 5))) if q else (((4, 4, 4), (6, 6, 5)), ((3, 5, 4), (5, 6, 5)), ((5, 3, 3), (6, 5, 4)), ((4, 4, 3), (7, 7, 5))):
        for rot in rots:
            i += 1
            t.append(dict(harness="h_resample", cfg=dict(n=list(n), newn=list(newn), rot=rot, nvdim=1), limits=big))
            t.append(dict(harness="h_resample", cfg=dict(n=list(n), newn=list(newn), rot=rot, nvdim=3, perm=perms[i % len(perms)]), limits=big))
    for j, rot in enumerate(rots):
        t.append(dict(harness="h_special", cfg=dict(n=[4, 6, 3], newn=[5, 5, 4], rot=rot, kind="uniform", perm=perms[j % len(perms)]), limits=big))
        t.append(dict(harness="h_special", cfg=dict(n=[4, 6, 3], newn=[5, 5, 4], rot=rot, kind="linear"), limits=big))
    pairs = [("qz", "x345"), ("x345", "y345"), ("z51213", "qx")] if q else [("qz", "x345"), ("x345", "y345"), ("z51213", "qx"), ("y345", "z345"), ("qx", "qy"), ("x51213", "z345")]
    for j, (r1, r2) in enumerate(pairs):
        t.append(dict(harness="h_compose", cfg=dict(n=[3, 3, 2], newn=[4, 4, 3], rot1=r1, rot2=r2, nvdim=3 if j % 2 == 0 else 1, perm=perms[j % len(perms)], noncommuting=True), limits=big))
    t.append(dict(harness="h_region", cfg={}, limits=dict(timeout_ms=120000, wall_budget=1500)))
    for axis in (0, 1, 2):
        for nv in ((1,) if q and axis else (1, 3)):
            t.append(dict(harness="h_quarter", cfg=dict(n=[2, 3, 4][axis:] + [2, 3, 4][:axis], axis=axis, nvdim=nv), limits=big))
    # default resolution, cubic cells of decimal size (edge / cell is an integer only up to rounding)
    for n, axis, c, p1 in (((2, 2, 5), 0, 0.1, [0.0, 0.0, 0.0]), ((2, 5, 3), 2, 0.1, [0.0, 0.0, 0.0]), ((3, 2, 4), 1, 0.7, [0.1, 0.2, 0.3]), ((4, 3, 2), 0, 5e-9, [1e-9, 2e-9, -3e-9])):
        t.append(dict(harness="h_quarter", cfg=dict(n=list(n), axis=axis, nvdim=1, c=c, p1=p1, default_n=True), limits=big))
    t.append(dict(harness="h_methods", cfg=dict(n=[4, 4, 4], newn=[6, 6, 6])))
    t.append(dict(harness="h_refuse", cfg={}))
    return t
