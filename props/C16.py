"""C16 -- VTK output puts each value in the grid cell a VTK reader finds at that position (DESIGN 2/C16)."""
from __future__ import annotations

import contextlib
import os
import tempfile

import numpy as np

from symx import lib, stubs

from .common import sym_mesh

META = dict(
    bounds=dict(
        quick=dict(also="concrete far-offset geometries (offset/cell up to 1e13) through the binary and XML writers",
                   mesh_n="(2,1,1), (2,3,2), (1,2,3)", nvdim="1..4", labels="default / custom / short labels (r, m, n, o ...)", subregions="none / two",
                   representations="bin, xml (symbolic through the recorder grid); txt natively", validity="symbolic bit per cell"),
        thorough=dict(mesh_n="as quick plus (3,2,2), (2,2,4)", nvdim="1..4", labels="as quick", subregions="as quick", representations="as quick", validity="symbolic"),
    ),
    stubs=["vtkRectilinearGrid / numpy_support / legacy and XML writers and readers: a recorder grid; writer followed by the matching reader returns the same grid; "
           "cell id = i + nx*(j + ny*k) spanning the coordinate intervals (VTK's structured-data contract); native replays use the real VTK, where the "
           "contract itself is checked through vtkRectilinearGrid.GetCell(id).GetBounds()"],
    assumptions=["REAL theory with the exact square-root encoding for the norm array"],
    outside=["VTK's own file formats", "the ten-digit text form beyond a native 1e-9 comparison", "symbolic data in legacy point-data files (text)"],
)

LABELS = {"default": {1: None, 2: None, 3: None, 4: None}, "custom": {1: None, 2: ["a", "b"], 3: ["mx", "my", "mz"], 4: ["p", "q", "r", "t"]},
          "short": {1: None, 2: ["m", "n"], 3: ["r", "phi", "z"], 4: ["n", "o", "r", "m"]}}


@contextlib.contextmanager
def _env(sx):
    import discretisedfield.field as dff
    import discretisedfield.io as dio
    import discretisedfield.io.vtk as dvtk

    if sx.sym:
        with stubs.vtk_stub(dff, dvtk), stubs.json_sidecar_stub(dio):
            yield ""
    else:
        with tempfile.TemporaryDirectory() as d:
            yield d + os.sep


def _grid_view(sx, rgrid):
    """dims, coordinate lists, {name: (ncomp, rows)} from the recorder grid or the real vtkRectilinearGrid"""
    if sx.sym:
        coords = [list(a.data) for a in rgrid.coords]
        arrays = {a.name: (a.GetNumberOfComponents(), a.data) for a in rgrid.cell_data.arrays}
        return rgrid.GetDimensions(), coords, arrays, rgrid.cell_data.active
    from vtkmodules.util import numpy_support as vns

    coords = [list(vns.vtk_to_numpy(c)) for c in (rgrid.GetXCoordinates(), rgrid.GetYCoordinates(), rgrid.GetZCoordinates())]
    cd = rgrid.GetCellData()
    arrays = {}
    for i in range(cd.GetNumberOfArrays()):
        a = cd.GetArray(i)
        arrays[cd.GetArrayName(i)] = (a.GetNumberOfComponents(), vns.vtk_to_numpy(a))
    active = {}
    if cd.GetVectors() is not None:
        active["vectors"] = cd.GetVectors().GetName()
    if cd.GetScalars() is not None:
        active["scalars"] = cd.GetScalars().GetName()
    return rgrid.GetDimensions(), coords, arrays, active


def _setup(sx, cfg):
    df = lib.load()
    n = tuple(cfg["n"])
    nv = cfg["nvdim"]
    mesh0, pmin, e = sym_mesh(sx, n, flip=False)
    c = [e[a] / n[a] for a in range(3)]
    subs = {}
    for name, lo, hi in cfg.get("subregions", []):
        subs[name] = df.Region(p1=[pmin[a] + lo[a] * c[a] for a in range(3)], p2=[pmin[a] + hi[a] * c[a] for a in range(3)])
    mesh = df.Mesh(region=mesh0.region, n=n, subregions=subs)
    arr = sx.real_array("v", (*n, nv))
    valid = sx.bool_array("ok", n)
    labels = LABELS[cfg.get("labels", "default")][nv]
    f = df.Field(mesh, nvdim=nv, value=arr, valid=valid, vdims=labels)
    return df, f, mesh, pmin, e, c, n, nv, arr, valid


def h_grid(sx, cfg):
    """the rectilinear grid: vertices as coordinates; field, component scalars, norm and validity in the cell VTK locates at each position"""
    df, f, mesh, pmin, e, c, n, nv, arr, valid = _setup(sx, cfg)
    with _env(sx):
        rgrid = f.to_vtk()
        dims, coords, arrays, active = _grid_view(sx, rgrid)
        if not sx.sym:
            # the id <-> position contract itself, asked of the real VTK
            okc = True
            for idx in np.ndindex(*n):
                cid = idx[0] + n[0] * (idx[1] + n[1] * idx[2])
                b = rgrid.GetCell(cid).GetBounds()
                for a in range(3):
                    lo, hi = pmin[a] + idx[a] * c[a], pmin[a] + (idx[a] + 1) * c[a]
                    okc = okc and abs(b[2 * a] - lo) <= 1e-9 * (abs(lo) + c[a]) and abs(b[2 * a + 1] - hi) <= 1e-9 * (abs(hi) + c[a])
            sx.check("vtk-cell-id-contract", bool(okc))
    sx.check("dimensions", tuple(dims) == tuple(k + 1 for k in n))
    for a in range(3):
        want = [pmin[a] + i * c[a] for i in range(n[a])] + [pmin[a] + e[a]]
        sx.check(f"coordinates[{a}]", len(coords[a]) == n[a] + 1 and sx.eq(list(coords[a]), want))
    names = set(arrays)
    want_names = {"field", "norm", "valid"} | (set(f.vdims) if nv > 1 else set())
    sx.check("array-names", names == want_names, got=str(sorted(names)))
    sx.check("active-attribute", (active.get("vectors") == "field") if nv == 3 else ((active.get("scalars") == "field") if nv == 1 else True))
    ncell = n[0] * n[1] * n[2]
    sx.check("array-sizes", all(len(v[1]) == ncell for v in arrays.values()) and arrays["field"][0] == nv)
    fld = np.asarray(arrays["field"][1], dtype=object).reshape(ncell, nv)
    for idx in np.ndindex(*n):
        cid = idx[0] + n[0] * (idx[1] + n[1] * idx[2])
        for k in range(nv):
            sx.check(f"field{idx}[{k}]", sx.eq(fld[cid, k], arr[idx + (k,)], scale=0.0))
            if nv > 1 and f.vdims[k] in arrays:
                sx.check(f"component-{k}{idx}", sx.eq(arrays[f.vdims[k]][1][cid], arr[idx + (k,)], scale=0.0))
        s2 = 0.0
        for k in range(nv):
            s2 = s2 + arr[idx + (k,)] * arr[idx + (k,)]
        nr = arrays["norm"][1][cid]
        sx.check(f"norm{idx}", sx.And(nr >= 0, sx.eq(nr * nr, s2)))
        vv = arrays["valid"][1][cid]
        sx.check(f"valid{idx}", sx.eq(sx.ne(vv, 0), sx.truth(valid[idx])))
    sx.check("source-untouched", sx.eq(f.array, arr))
    # history: values and validity edited in place after a conversion; the next conversion shows the current state
    w = sx.real("w")
    first = (0, 0, 0)
    f.array[first + (0,)] = w
    flipped = not sx.decide(sx.truth(valid[first]))
    f.valid[first] = flipped
    with _env(sx):
        rgrid2 = f.to_vtk()
        dims2, coords2, arrays2, active2 = _grid_view(sx, rgrid2)
    fld2 = np.asarray(arrays2["field"][1], dtype=object).reshape(ncell, nv)
    sx.check("after-in-place-edit-field", sx.eq(fld2[0, 0], w, scale=0.0))
    sx.check("after-in-place-edit-valid", sx.eq(sx.ne(arrays2["valid"][1][0], 0), flipped))
    if nv > 1 and f.vdims[0] in arrays2:
        sx.check("after-in-place-edit-component", sx.eq(arrays2[f.vdims[0]][1][0], w, scale=0.0))


def h_txt_anisotropic(sx, cfg):
    """text form on strongly anisotropic meshes (thin film, long wire): every coordinate and value keeps ten significant digits (native)"""
    df = lib.load()
    with sx.native():
        rng = np.random.default_rng(8)
        for p1, p2, n in (((0.0, 0.0, 0.0), (1.2345678e-3, 2.3456789e-3, 3.3333333e-9), (2, 3, 2)), ((-5.4321e-9, 1.111111e-9, 0.0), (4.32109e-9, 7.7777777e-9, 9.87654321e-4), (3, 1, 2)),
                          ((1.0e2, -3.3333333e-7, 5.0), (1.00000123e2, 6.6666667e-7, 5.5), (1, 2, 2))):
            mesh = df.Mesh(p1=p1, p2=p2, n=n)
            f = df.Field(mesh, nvdim=3, value=rng.normal(size=(*n, 3)) * 1e5)
            with tempfile.TemporaryDirectory() as d:
                fn = os.path.join(d, "thin.vtk")
                f.to_file(fn, representation="txt")
                g = df.Field.from_file(fn)
            tag = f"{n}"
            ok = tuple(int(x) for x in g.mesh.n) == n
            for a in range(3):
                ok = ok and abs(g.mesh.region.pmin[a] - mesh.region.pmin[a]) <= 2e-9 * max(abs(mesh.region.pmin[a]), abs(mesh.region.pmax[a]))
                ok = ok and abs(g.mesh.region.pmax[a] - mesh.region.pmax[a]) <= 2e-9 * max(abs(mesh.region.pmin[a]), abs(mesh.region.pmax[a]))
                ok = ok and abs(g.mesh.cell[a] - mesh.cell[a]) <= 1e-6 * mesh.cell[a]
            sx.check(f"geometry-to-ten-digits{tag}", bool(ok), got=str((list(g.mesh.region.pmin), list(g.mesh.region.pmax))))
            sx.check(f"values-to-ten-digits{tag}", bool(np.allclose(g.array, f.array, rtol=2e-9, atol=0)))


def h_roundtrip(sx, cfg):
    """write (bin / xml / txt) and read back: region, counts, values, validity, labels, subregions"""
    df, f, mesh, pmin, e, c, n, nv, arr, valid = _setup(sx, cfg)
    rep = cfg["rep"]
    with _env(sx) as prefix:
        fname = prefix + "field.vtk"
        try:
            f.to_file(fname, representation=rep)
            g = df.Field.from_file(fname)
        except Exception as ex:  # noqa: BLE001
            sx.check("roundtrip-accepted", False, exc=f"{type(ex).__name__}: {ex}")
            return
    exact = rep != "txt"

    def same(a, b, scale=1.0):
        if exact:
            return sx.eq(a, b, scale=0.0)
        return sx.And(a <= b + 2e-9 * (abs(a) + abs(b)) + 1e-300, b <= a + 2e-9 * (abs(a) + abs(b)) + 1e-300)

    sx.check("n", tuple(int(x) for x in g.mesh.n) == n)
    for a in range(3):
        sx.check(f"pmin[{a}]", same(g.mesh.region.pmin[a], pmin[a]))
        sx.check(f"pmax[{a}]", same(g.mesh.region.pmax[a], pmin[a] + e[a]))
    sx.check("nvdim", g.nvdim == nv)
    if nv > 1:
        sx.check("labels", list(g.vdims) == list(f.vdims), got=repr(g.vdims), want=repr(f.vdims))
    sx.check("subregion-names", list(g.mesh.subregions) == list(mesh.subregions))
    for name in mesh.subregions:
        if name in g.mesh.subregions:
            sx.check(f"subregion-{name}", sx.And(sx.eq(list(g.mesh.subregions[name].pmin), list(mesh.subregions[name].pmin)), sx.eq(list(g.mesh.subregions[name].pmax), list(mesh.subregions[name].pmax))))
    ok = tuple(np.shape(g.array)) == (*n, nv) and tuple(np.shape(g.valid)) == n
    sx.check("shapes", ok)
    if ok:
        for idx in np.ndindex(*n):
            for k in range(nv):
                sx.check(f"value{idx}[{k}]", same(g.array[idx + (k,)], arr[idx + (k,)]))
            sx.check(f"valid{idx}", sx.eq(sx.truth(g.valid[idx]), sx.truth(valid[idx])))


def h_far(sx, cfg):
    """concrete binary64 geometry far from the origin relative to the cell size (the vertex coordinates carry rounding of order
    eps*|x|), symbolic values: binary and XML files written by the library are read back onto the same mesh"""
    df = lib.load()
    n = tuple(cfg["n"])
    nv = cfg["nvdim"]
    p1 = [float(x) for x in cfg["pmin"]]
    p2 = [p1[a] + n[a] * float(cfg["cell"][a]) for a in range(3)]
    mesh = df.Mesh(p1=p1, p2=p2, n=n)
    arr = sx.real_array("v", (*n, nv))
    f = df.Field(mesh, nvdim=nv, value=arr)
    with _env(sx) as prefix:
        fname = prefix + "far.vtk"
        try:
            f.to_file(fname, representation=cfg["rep"])
            g = df.Field.from_file(fname)
        except Exception as ex:  # noqa: BLE001
            sx.check("far-roundtrip-accepted", False, exc=f"{type(ex).__name__}: {ex}")
            return
    sx.check("far-roundtrip-accepted", True)
    sx.check("far-n", tuple(int(x) for x in g.mesh.n) == n)
    sx.check("far-corners", bool(np.all(np.asarray(g.mesh.region.pmin) == np.asarray(mesh.region.pmin))) and bool(np.all(np.asarray(g.mesh.region.pmax) == np.asarray(mesh.region.pmax))))
    if tuple(np.shape(g.array)) == (*n, nv):
        sx.check("far-values", sx.eq(g.array, arr, scale=0.0))


def h_refuse(sx, cfg):
    df = lib.load()
    m2, _, _ = sym_mesh(sx, (2, 2), flip=False)
    f2 = df.Field(m2, nvdim=1, value=1.0)
    m3, _, _ = sym_mesh(sx, (2, 1, 1), flip=False, prefix="q")
    fv = df.Field(m3, nvdim=2, value=(1.0, 2.0), vdims=[])
    cases = [("ndim-2", lambda: f2.to_vtk(), RuntimeError), ("vector-without-labels", lambda: fv.to_vtk(), AttributeError)]
    with _env(sx) as prefix:
        cases.append(("unknown-representation", lambda: df.Field(m3, nvdim=1, value=1.0).to_file(prefix + "x.vtk", representation="bin16"), ValueError))
        for name, call, exc in cases:
            try:
                call()
            except exc:
                sx.check(name, True)
            except Exception as ex:  # noqa: BLE001
                sx.check(name, False, exc=f"{type(ex).__name__}: {ex}")
            else:
                sx.check(name, False, exc="accepted")


def h_legacy(sx, cfg):
    """files with point data written by old versions are read with one value per cell (native: hand-written files and the repository samples)"""
    df = lib.load()
    with sx.native():
        n = tuple(cfg["n"])
        nv = cfg["nvdim"]
        pmin, cell = cfg["pmin"], cfg["cell"]
        rng = np.random.default_rng(2)
        vals = rng.normal(size=(*n, nv)) * 1e3
        vals[(0, 0, 0)] = [-1.5, 2.25, -3.0][:nv]
        vals[tuple(k - 1 for k in n)] = [-7.0, -0.5, 4.0][:nv]
        centres = [[pmin[a] + (i + 0.5) * cell[a] for i in range(n[a])] for a in range(3)]
        lines = ["# vtk DataFile Version 3.0", "Field", "ASCII", "DATASET RECTILINEAR_GRID", f"DIMENSIONS {n[0]} {n[1]} {n[2]}"]
        for a, k in enumerate("XYZ"):
            lines += [f"{k}_COORDINATES {n[a]} float", " ".join(repr(x) for x in centres[a])]
        lines += [f"POINT_DATA {n[0] * n[1] * n[2]}"]
        order = [tuple(reversed(i)) for i in np.ndindex(*reversed(n))]  # x fastest
        if nv == 1:
            lines += ["SCALARS field double", "LOOKUP_TABLE default"] + [repr(float(vals[i + (0,)])) for i in order]
        else:
            for k, cname in enumerate(("x-component", "y-component", "z-component")):
                lines += [f"SCALARS {cname} double", "LOOKUP_TABLE default"] + [repr(float(vals[i + (k,)])) for i in order]
            lines += ["VECTORS field double"] + [" ".join(repr(float(vals[i + (k,)])) for k in range(3)) for i in order]
        with tempfile.TemporaryDirectory() as d:
            fn = os.path.join(d, "old.vtk")
            with open(fn, "w") as fh:
                fh.write("\n".join(lines) + "\n")
            try:
                g = df.Field.from_file(fn)
            except Exception as ex:  # noqa: BLE001
                sx.check("legacy-file-read", False, exc=f"{type(ex).__name__}: {ex}")
                return
        sx.check("legacy-file-read", True)
        sx.check("n-nvdim", tuple(int(x) for x in g.mesh.n) == n and g.nvdim == nv)
        multi = [a for a in range(3) if n[a] > 1]
        sx.check("region", all(abs(g.mesh.region.pmin[a] - pmin[a]) <= 1e-9 * (abs(pmin[a]) + cell[a]) and abs(g.mesh.cell[a] - cell[a]) <= 1e-9 * cell[a] for a in multi))
        sx.check("one-value-per-cell", bool(np.allclose(g.array, vals, rtol=1e-12, atol=0)))
        sample_dir = os.path.join(lib.REPO_ROOT, "discretisedfield", "tests", "test_sample")
        for name, nvs in (("vtk-scalar-legacy.vtk", 1), ("vtk-vector-legacy.vtk", 3)):
            s = df.Field.from_file(os.path.join(sample_dir, name))
            txt = open(os.path.join(sample_dir, name)).read().split("\n")
            start = next(i for i, ln in enumerate(txt) if ln.startswith("VECTORS" if nvs == 3 else "SCALARS"))
            rows = [list(map(float, ln.split())) for ln in txt[start + (1 if nvs == 3 else 2): start + (1 if nvs == 3 else 2) + len(s.mesh)]]
            got = [list(s.array[tuple(reversed(i))]) for i in np.ndindex(*reversed(tuple(int(x) for x in s.mesh.n)))]
            sx.check(f"sample-{name}", s.nvdim == nvs and bool(np.allclose(got, rows, rtol=1e-12, atol=0)))


def tasks(tier):
    q = tier == "quick"
    t = []
    big = dict(timeout_ms=60000, wall_budget=1200)
    shapes = [(2, 1, 1), (2, 3, 2), (1, 2, 3)] if q else [(2, 1, 1), (2, 3, 2), (1, 2, 3), (3, 2, 2), (2, 2, 4)]
    subs = {(2, 1, 1): [("left", [0, 0, 0], [1, 1, 1]), ("right", [1, 0, 0], [2, 1, 1])], (2, 3, 2): [("zz", [0, 0, 0], [2, 2, 1]), ("aa", [1, 1, 1], [2, 3, 2])]}
    i = 0
    for n in shapes:
        for nv in (1, 2, 3, 4):
            i += 1
            lab = ("default", "custom", "short")[i % 3]
            if q and n == (2, 3, 2) and nv in (2, 4):
                continue
            t.append(dict(harness="h_grid", cfg=dict(n=list(n), nvdim=nv, labels=lab), limits=big))
            for rep in ("bin", "xml", "txt"):
                if q and (i + len(rep)) % 2 and rep != "bin":
                    continue
                t.append(dict(harness="h_roundtrip", cfg=dict(n=list(n), nvdim=nv, labels=lab, rep=rep if rep != "bin" or i % 2 else "bin8", subregions=subs.get(n, []) if i % 2 else []), limits=big))
    far = [dict(n=[4, 3, 2], nvdim=1, pmin=[1e4, 1e4, 1e4], cell=[1e-9, 1e-9, 1e-9], rep="bin"), dict(n=[4, 3, 2], nvdim=3, pmin=[-2e4, 1e4, 3e4], cell=[1e-9, 2e-9, 1e-9], rep="xml"),
           dict(n=[64, 1, 1], nvdim=1, pmin=[100.0, 0.0, 0.0], cell=[1e-9, 1e-9, 1e-9], rep="bin8"), dict(n=[3, 2, 2], nvdim=2, pmin=[1e9, -1e9, 5e8], cell=[0.1, 0.3, 0.7], rep="bin")]
    if not q:
        far += [dict(n=[1000, 1, 1], nvdim=1, pmin=[100.0, 0.0, 0.0], cell=[1e-9, 1e-9, 1e-9], rep="bin"), dict(n=[5, 4, 3], nvdim=1, pmin=[1e6, 2e6, -3e6], cell=[1e-6, 1e-6, 3e-6], rep="xml")]
    for cfg in far:
        t.append(dict(harness="h_far", cfg=cfg, limits=big))
    t.append(dict(harness="h_refuse", cfg={}))
    t.append(dict(harness="h_txt_anisotropic", cfg={}))
    for n, nv, pmin, cell in (((3, 2, 2), 1, [0.0, -1e-9, 5e-9], [1e-9, 2e-9, 2.5e-9]), ((2, 3, 1), 3, [-4.0, 0.5, 0.0], [2.0, 0.5, 1e-9]), ((4, 1, 1), 3, [0.0, 0.0, 0.0], [1e-9, 1e-9, 1e-9])):
        t.append(dict(harness="h_legacy", cfg=dict(n=list(n), nvdim=nv, pmin=pmin, cell=cell)))
    return t
