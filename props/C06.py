"""C06 -- integrals and means are cell sums times cell measure, consistent across axes (DESIGN 2/C06)."""
from __future__ import annotations

import itertools

import numpy as np

from symx import lib
from symx.sarray import symarray

from .common import DIMSETS, sym_mesh

META = dict(
    bounds=dict(
        quick=dict(also="an axis called 'V'; integer-typed data means (native); mean by name on 1-d fields",
                   ndim="1..3", n="<=3 per axis (anisotropic, incl. single-cell axes)", nvdim="1..2", directions="every direction, every order"),
        thorough=dict(ndim="1..4", n="<=4 per axis", nvdim="1..4", directions="every direction, every ordered subset"),
    ),
    stubs=[],
    assumptions=["REAL theory", "geometry (corner, edges), every cell value, alpha, beta, translation vector and scale factor symbolic"],
    outside=["n > 4 per axis", "NaN/inf values", "integer overflow of integer-dtype field VALUES (integer-typed corners with large extents are covered natively)"],
)


def _field(sx, df, mesh, nv, name):
    n = tuple(int(v) for v in mesh.n)
    vals = sx.real_array(name, (*n, nv))
    vd = [f"c{c}" for c in range(nv)] if nv > 1 else None
    return df.Field(mesh, nvdim=nv, value=vals, vdims=vd), vals


def _sumover(vals, axes):
    """independent fold: sum of an object/float array over the given axes (python loops, no numpy reductions)"""
    vals = np.asarray(vals, dtype=object)
    axes = sorted(a % vals.ndim for a in axes)
    rest = [a for a in range(vals.ndim) if a not in axes]
    out = np.empty([vals.shape[a] for a in rest], dtype=object)
    for ridx in np.ndindex(*out.shape):
        acc = 0.0
        for aidx in np.ndindex(*[vals.shape[a] for a in axes]):
            full = [None] * vals.ndim
            for a, i in zip(rest, ridx):
                full[a] = i
            for a, i in zip(axes, aidx):
                full[a] = i
            acc = acc + vals[tuple(full)]
        out[ridx] = acc
    return out


def _check_reduced_mesh(sx, tag, g, n, pmin, e, dims, removed):
    keep = [a for a in range(len(n)) if a not in removed]
    sx.check(f"{tag}-mesh-n", tuple(int(v) for v in g.mesh.n) == tuple(n[a] for a in keep))
    sx.check(f"{tag}-mesh-dims", tuple(g.mesh.region.dims) == tuple(dims[a] for a in keep))
    sx.check(f"{tag}-mesh-pmin", sx.eq(list(g.mesh.region.pmin), [pmin[a] for a in keep]))
    sx.check(f"{tag}-mesh-pmax", sx.eq(list(g.mesh.region.pmax), [pmin[a] + e[a] for a in keep]))


def h_integrate(sx, cfg):
    df = lib.load()
    n = tuple(cfg["n"])
    nd = len(n)
    nv = cfg["nvdim"]
    dims = DIMSETS[cfg.get("dims", "default")][nd]
    mesh, pmin, e = sym_mesh(sx, n, dims=dims)
    c = [e[a] / n[a] for a in range(nd)]
    f, v = _field(sx, df, mesh, nv, "v")
    vol = 1.0
    for a in range(nd):
        vol = vol * c[a]
    tot_expected = _sumover(v, range(nd))  # shape (nv,)
    total = f.integrate()
    sx.observe("total", total)
    sx.check("total-shape", tuple(np.shape(total)) == (nv,))
    for k in range(nv):
        sx.check(f"total[{k}]", sx.eq(total[k], tot_expected[k] * vol))
    tf = df.integrate(f)
    for k in range(nv):
        sx.check(f"function-form[{k}]", sx.eq(tf[k], total[k]))

    # directional integrals
    for a in range(nd):
        g = f.integrate(dims[a])
        exp = _sumover(v, [a])
        if nd == 1:
            sx.check("dir-1d-shape", tuple(np.shape(g)) == (nv,))
            for k in range(nv):
                sx.check(f"dir[{a}][{k}]", sx.eq(g[k], exp[k] * c[a]))
            continue
        sx.check(f"dir-type[{a}]", isinstance(g, df.Field) and g.nvdim == nv and g.vdims == f.vdims)
        _check_reduced_mesh(sx, f"dir[{a}]", g, n, pmin, e, dims, [a])
        for idx in np.ndindex(*exp.shape):
            sx.check(f"dir[{a}]{idx}", sx.eq(g.array[idx], exp[idx] * c[a]))

    # Fubini: every order of successive directional integrals gives the total
    orders = list(itertools.permutations(range(nd)))
    if not cfg.get("all_orders"):
        orders = orders[:: max(1, len(orders) // 3)]
    for order in orders:
        cur = f
        for a in order:
            cur = cur.integrate(dims[a])
        for k in range(nv):
            sx.check(f"fubini{order}[{k}]", sx.eq(cur[k], total[k]))

    # cumulative
    for a in range(nd):
        h = f.integrate(dims[a], cumulative=True)
        sx.check(f"cum-mesh[{a}]", h.mesh == f.mesh and tuple(int(x) for x in h.mesh.n) == n and h.nvdim == nv)
        g = f.integrate(dims[a])
        for idx in np.ndindex(*n):
            for k in range(nv):
                acc = 0.0
                for j in range(idx[a]):
                    jj = list(idx)
                    jj[a] = j
                    acc = acc + v[tuple(jj) + (k,)]
                sx.check(f"cum[{a}]{idx}[{k}]", sx.eq(h.array[idx + (k,)], c[a] * (acc + v[idx + (k,)] / 2)))
        # last entry + half the last cell = directional integral
        for idx in np.ndindex(*n):
            if idx[a] != n[a] - 1:
                continue
            rest = tuple(i for b, i in enumerate(idx) if b != a)
            for k in range(nv):
                d_val = g[k] if nd == 1 else g.array[rest + (k,)]
                sx.check(f"cum-last[{a}]{idx}[{k}]", sx.eq(h.array[idx + (k,)] + c[a] * v[idx + (k,)] / 2, d_val))

    # means
    m = f.mean()
    ncell = 1
    for a in range(nd):
        ncell *= n[a]
    for k in range(nv):
        sx.check(f"mean-all[{k}]", sx.eq(m[k] * (ncell * vol), total[k]))
    m2 = f.mean(list(dims))
    for k in range(nv):
        sx.check(f"mean-all-listed[{k}]", sx.eq(m2[k], m[k]))
    if nd == 1:
        # the single direction of a 1-d field, given by name: like integrate(name) nothing remains of the mesh
        try:
            m3 = f.mean(dims[0])
        except Exception as ex:  # noqa: BLE001
            sx.check("mean-1d-by-name-accepted", False, exc=f"{type(ex).__name__}: {ex}")
        else:
            m3 = m3.array.reshape(-1) if isinstance(m3, df.Field) else m3
            sx.check("mean-1d-by-name-shape", tuple(np.shape(m3)) == (nv,))
            for k in range(nv):
                sx.check(f"mean-1d-by-name[{k}]", sx.eq(m3[k], m[k]))
    if nd > 1:
        subsets = [[a] for a in range(nd)]
        if nd > 2:
            subsets += [list(s) for s in itertools.permutations(range(nd), 2)][:: 1 if cfg.get("all_orders") else 2]
        for sub in subsets:
            arg = dims[sub[0]] if len(sub) == 1 and not cfg.get("listarg") else [dims[a] for a in sub]
            g = f.mean(arg)
            exp = _sumover(v, sub)
            ext = 1
            for a in sub:
                ext *= n[a]
            _check_reduced_mesh(sx, f"mean{sub}", g, n, pmin, e, dims, sub)
            sx.check(f"mean-meta{sub}", g.nvdim == nv and g.vdims == f.vdims)
            for idx in np.ndindex(*exp.shape):
                sx.check(f"mean{sub}{idx}", sx.eq(g.array[idx] * ext, exp[idx]))


def h_linear_translate(sx, cfg):
    """linearity in the field; independence of the mesh position; consistency after an in-place rescale"""
    df = lib.load()
    n = tuple(cfg["n"])
    nd = len(n)
    nv = cfg["nvdim"]
    dims = DIMSETS["default"][nd]
    mesh, pmin, e = sym_mesh(sx, n, dims=dims, flip=False)
    c = [e[a] / n[a] for a in range(nd)]
    f, v = _field(sx, df, mesh, nv, "v")
    g, w = _field(sx, df, mesh, nv, "w")
    al, be = sx.real("alpha"), sx.real("beta")
    comb = al * f + be * g
    a0 = cfg.get("axis", 0)
    ti, tf_, tg = comb.integrate(), f.integrate(), g.integrate()
    for k in range(nv):
        sx.check(f"linear-total[{k}]", sx.eq(ti[k], al * tf_[k] + be * tg[k]))
    ci = comb.integrate(dims[a0], cumulative=True)
    cf = f.integrate(dims[a0], cumulative=True)
    cg = g.integrate(dims[a0], cumulative=True)
    for idx in np.ndindex(*n):
        for k in range(nv):
            sx.check(f"linear-cum{idx}[{k}]", sx.eq(ci.array[idx + (k,)], al * cf.array[idx + (k,)] + be * cg.array[idx + (k,)]))
    # translated copy of the mesh with the same cell values
    t = sx.reals("t", nd)
    mesh_t = mesh.translate(sx.arr(t) if nd > 1 else t[0])
    ft = df.Field(mesh_t, nvdim=nv, value=v, vdims=f.vdims)
    tt = ft.integrate()
    for k in range(nv):
        sx.check(f"translate-total[{k}]", sx.eq(tt[k], tf_[k]))
    dt = ft.integrate(dims[a0])
    d0 = f.integrate(dims[a0])
    if nd == 1:
        for k in range(nv):
            sx.check(f"translate-dir[{k}]", sx.eq(dt[k], d0[k]))
    else:
        sx.check("translate-dir", sx.eq(dt.array, d0.array))
    mt, m0 = ft.mean(), f.mean()
    for k in range(nv):
        sx.check(f"translate-mean[{k}]", sx.eq(mt[k], m0[k]))
    # history: integrate, rescale the mesh in place, integrate again -> cell measure must follow
    s = sx.real("s")
    sx.assume(s > 0)
    mesh.scale(s, inplace=True)
    t2 = f.integrate()
    volume = 1.0
    for a in range(nd):
        volume = volume * (c[a] * s)
    tot = _sumover(v, range(nd))
    for k in range(nv):
        sx.check(f"after-inplace-scale-total[{k}]", sx.eq(t2[k], tot[k] * volume))
    c2 = f.integrate(dims[a0], cumulative=True)
    for idx in np.ndindex(*n):
        if idx[a0] == 0:
            sx.check(f"after-inplace-scale-cum{idx}", sx.eq(c2.array[idx + (0,)], c[a0] * s * v[idx + (0,)] / 2))


def h_refusals(sx, cfg):
    df = lib.load()
    mesh, pmin, e = sym_mesh(sx, (2, 2))
    f, v = _field(sx, df, mesh, 1, "v")
    for name, call, exc in (
        ("cumulative-without-direction", lambda: f.integrate(cumulative=True), ValueError),
        ("non-string-direction", lambda: f.integrate(0), TypeError),
        ("unknown-direction", lambda: f.integrate("q"), ValueError),
        ("duplicate-directions-mean", lambda: f.mean(["x", "x"]), ValueError),
        ("bad-direction-type-mean", lambda: f.mean(3), ValueError),
    ):
        try:
            call()
        except (ValueError, TypeError) as ex:
            sx.check(name, isinstance(ex, exc))
        else:
            sx.check(name, False)


def h_int_corners(sx, cfg):
    """integer-typed corners with large extents (native): the total, the direction-by-direction integral and mean*extent agree
    (products of integer edge lengths must not wrap around)"""
    df = lib.load()
    with sx.native():
        n = tuple(cfg["n"])
        nd = len(n)
        ext = cfg["extent"]
        p1 = tuple(int(-(a + 1) * 7) for a in range(nd))
        p2 = tuple(int(p1[a] + ext * (a + 1)) for a in range(nd))
        mesh = df.Mesh(p1=p1 if nd > 1 else p1[0], p2=p2 if nd > 1 else p2[0], n=n if nd > 1 else n[0])
        rng = np.random.default_rng(3)
        vals = rng.normal(size=(*n, 2))
        f = df.Field(mesh, nvdim=2, value=vals)
        cell = [(p2[a] - p1[a]) / n[a] for a in range(nd)]
        vol = float(np.prod([float(c) for c in cell]))
        want = vals.reshape(-1, 2).sum(axis=0) * vol
        tot = f.integrate()
        sx.check("total", bool(np.allclose(tot, want, rtol=1e-12)), got=str(tot), want=str(want))
        cur = f
        for d in mesh.region.dims:
            cur = cur.integrate(d)
        sx.check("direction-by-direction", bool(np.allclose(cur, want, rtol=1e-12)))
        extent = float(np.prod([float(p2[a] - p1[a]) for a in range(nd)]))
        sx.check("mean-times-extent", bool(np.allclose(f.mean() * extent, want, rtol=1e-12)))
        sx.check("cell-volume", bool(np.isclose(float(mesh.dV), vol, rtol=1e-12)))


def h_int_values(sx, cfg):
    """integer-typed data (concrete; the cast happens inside numpy): directional and multi-directional means are the
    integrals divided by the extents, not truncated to integers"""
    df = lib.load()
    with sx.native():
        n = tuple(cfg["n"])
        nd = len(n)
        p2 = tuple(1.5 * (a + 1) * n[a] for a in range(nd))
        mesh = df.Mesh(p1=(0.0,) * nd if nd > 1 else 0.0, p2=p2 if nd > 1 else p2[0], n=n if nd > 1 else n[0])
        rng = np.random.default_rng(5)
        vals = rng.integers(-9, 10, size=(*n, 2)).astype(cfg.get("dtype", "int64"))
        fi = df.Field(mesh, nvdim=2, value=vals, dtype=vals.dtype)
        dims = list(mesh.region.dims)
        for a, d in enumerate(dims):
            got = fi.mean(d)
            want = fi.integrate(d)
            got = np.asarray(got.array if isinstance(got, df.Field) else got, dtype=float)
            want = np.asarray(want.array if isinstance(want, df.Field) else want, dtype=float) / p2[a]
            sx.check(f"int-data-mean-{d}", bool(np.allclose(got, want, rtol=1e-12, atol=1e-12)) and bool(np.allclose(got.reshape(-1, 2), vals.astype(float).mean(axis=a).reshape(-1, 2), rtol=1e-12)))
        if nd > 2:
            got = fi.mean(dims[:2])
            got = np.asarray(got.array if isinstance(got, df.Field) else got, dtype=float)
            sx.check("int-data-mean-two-directions", bool(np.allclose(got.reshape(-1, 2), vals.astype(float).mean(axis=(0, 1)).reshape(-1, 2), rtol=1e-12)))
        sx.check("int-data-mean-all", bool(np.allclose(np.asarray(fi.mean(), dtype=float), vals.reshape(-1, 2).astype(float).mean(axis=0), rtol=1e-12)))
        sx.check("int-data-total", bool(np.allclose(np.asarray(fi.integrate(), dtype=float), vals.reshape(-1, 2).astype(float).sum(axis=0) * float(np.prod([p2[a] / n[a] for a in range(nd)])), rtol=1e-12)))


def tasks(tier):
    t = []
    for n in ((3,), (2, 3), (2, 3, 2)):
        t.append(dict(harness="h_int_values", cfg=dict(n=list(n))))
    for n, ext in (((3, 2, 2), 3_000_000), ((2, 1, 2, 2), 70_000), ((4,), 10**15), ((2, 3), 4_000_000_000)):
        t.append(dict(harness="h_int_corners", cfg=dict(n=list(n), extent=ext)))
    if tier == "quick":
        shapes = [((3,), 1), ((2,), 2), ((2, 3), 1), ((3, 1), 2), ((2, 1, 3), 1), ((1, 2, 2), 2)]
    else:
        shapes = [((k,), nv) for k in (1, 2, 4) for nv in (1, 3)]
        shapes += [((2, 3), 1), ((3, 1), 2), ((4, 2), 3), ((1, 1), 1), ((2, 1, 3), 1), ((1, 2, 2), 2), ((3, 2, 2), 1), ((2, 2, 2), 3),
                   ((2, 1, 2, 2), 1), ((1, 2, 1, 2), 1), ((2, 2), 4)]
    for n, nv in shapes:
        # 4-d: a third of the 24 integration orders (each order is a product of four symbolic cell sizes; all of them take an hour)
        t.append(dict(harness="h_integrate", cfg=dict(n=list(n), nvdim=nv, dims="renamed" if len(n) % 2 else "default",
                                                      all_orders=(tier != "quick" and len(n) < 4), listarg=bool(sum(n) % 2))))
    # an axis called 'V' (mesh.dV is the cell volume, not a cell length)
    for n, nv in ([((2, 3), 1), ((2, 2, 2), 1)] if tier == "quick" else [((3,), 1), ((2, 3), 2), ((2, 2, 2), 1), ((2, 1, 1, 2), 1)]):
        t.append(dict(harness="h_integrate", cfg=dict(n=list(n), nvdim=nv, dims="vnamed", all_orders=False, listarg=False)))
    lin = [((3,), 1, 0), ((2, 2), 2, 1), ((2, 1, 2), 1, 2)] if tier == "quick" else [((3,), 2, 0), ((2, 3), 2, 1), ((3, 2), 1, 0), ((2, 1, 2), 1, 2), ((2, 2, 2), 2, 1), ((2, 1, 2, 1), 1, 2)]
    for n, nv, ax in lin:
        t.append(dict(harness="h_linear_translate", cfg=dict(n=list(n), nvdim=nv, axis=ax)))
    t.append(dict(harness="h_refusals", cfg={}))
    if tier != "quick":
        for x in t:
            x.setdefault("limits", {}).update(timeout_ms=180000, wall_budget=3000.0)
    return t
