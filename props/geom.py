"""oracles shared by C12 / C13 / C14: exact quarter turns, affine images of boxes, state comparison"""
from __future__ import annotations

import itertools

import numpy as np

from symx import lib

from .common import DIMSETS


def qturn(k, u, v):
    """exact rotation of the in-plane pair (u, v) by k quarter turns from the first towards the second axis"""
    k %= 4
    if k == 0:
        return u, v
    if k == 1:
        return -v, u
    if k == 2:
        return -u, -v
    return v, -u


def rot_point(k, a, b, R, p):
    q = list(p)
    u, v = qturn(k, p[a] - R[a], p[b] - R[b])
    q[a] = R[a] + u
    q[b] = R[b] + v
    return q


def rot_index(k, a, b, n, idx):
    """index map induced by the rotation (np.rot90 convention checked against geometry by the harness itself)"""
    k %= 4
    j = list(idx)
    if k == 1:
        j[a], j[b] = n[b] - 1 - idx[b], idx[a]
    elif k == 2:
        j[a], j[b] = n[a] - 1 - idx[a], n[b] - 1 - idx[b]
    elif k == 3:
        j[a], j[b] = idx[b], n[a] - 1 - idx[a]
    return tuple(j)


def rot_box(sx, k, a, b, R, lo, hi):
    """axis-aligned image of the box [lo, hi] (lists) -> (lo', hi')"""
    c1 = rot_point(k, a, b, R, lo)
    c2 = rot_point(k, a, b, R, hi)
    nlo = [sx.min(x, y) for x, y in zip(c1, c2)]
    nhi = [sx.max(x, y) for x, y in zip(c1, c2)]
    return nlo, nhi


def swap_odd(k, a, b, seq):
    s = list(seq)
    if k % 2 == 1:
        s[a], s[b] = s[b], s[a]
    return s


def region_eq(sx, r, lo, hi, dims=None, units=None, tag="region"):
    """list of (name, condition) stating that Region r is the box [lo, hi] with the given metadata"""
    out = [(f"{tag}-ndim", len(r.pmin) == len(lo) and len(r.pmax) == len(hi))]
    out.append((f"{tag}-pmin", sx.eq(list(r.pmin), lo)))
    out.append((f"{tag}-pmax", sx.eq(list(r.pmax), hi)))
    if dims is not None:
        out.append((f"{tag}-dims", tuple(r.dims) == tuple(dims)))
    if units is not None:
        out.append((f"{tag}-units", tuple(r.units) == tuple(units)))
    return out


def region_inv(sx, r, tag="inv-region"):
    nd = len(r.pmin)
    out = [
        (f"{tag}-lengths", len(r.pmax) == nd and len(r.dims) == nd and len(r.units) == nd and nd >= 1),
        (f"{tag}-dims-unique", len(set(r.dims)) == nd and all(isinstance(d, str) for d in r.dims)),
        (f"{tag}-units-str", all(isinstance(u, str) for u in r.units)),
        (f"{tag}-pmin<pmax", sx.And(*[sx.lt(r.pmin[a], r.pmax[a]) for a in range(nd)])),
    ]
    return out


def check_all(sx, pairs):
    for name, cond in pairs:
        sx.check(name, cond)


def regions_same(sx, r1, r2, tag):
    return [
        (f"{tag}-pmin", sx.eq(list(r1.pmin), list(r2.pmin))),
        (f"{tag}-pmax", sx.eq(list(r1.pmax), list(r2.pmax))),
        (f"{tag}-dims", tuple(r1.dims) == tuple(r2.dims)),
        (f"{tag}-units", tuple(r1.units) == tuple(r2.units)),
        (f"{tag}-tolerance", r1.tolerance_factor == r2.tolerance_factor),
    ]


def meshes_same(sx, m1, m2, tag):
    out = regions_same(sx, m1.region, m2.region, tag + "-region")
    out.append((f"{tag}-n", [int(x) for x in m1.n] == [int(x) for x in m2.n]))
    out.append((f"{tag}-bc", m1.bc == m2.bc))
    out.append((f"{tag}-subregion-names", list(m1.subregions) == list(m2.subregions)))
    for name in m1.subregions:
        if name in m2.subregions:
            out += regions_same(sx, m1.subregions[name], m2.subregions[name], f"{tag}-sub-{name}")
    return out


def fields_same(sx, f1, f2, tag):
    out = meshes_same(sx, f1.mesh, f2.mesh, tag + "-mesh")
    out.append((f"{tag}-nvdim", f1.nvdim == f2.nvdim))
    out.append((f"{tag}-vdims", f1.vdims == f2.vdims))
    out.append((f"{tag}-mapping", f1.vdim_mapping == f2.vdim_mapping))
    out.append((f"{tag}-unit", f1.unit == f2.unit))
    same_shape = tuple(np.shape(f1.array)) == tuple(np.shape(f2.array)) and tuple(np.shape(f1.valid)) == tuple(np.shape(f2.valid))
    out.append((f"{tag}-shapes", same_shape))
    if same_shape:
        out.append((f"{tag}-array", sx.eq(f1.array, f2.array)))
        out.append((f"{tag}-valid", sx.And(*[sx.eq(sx.truth(x), sx.truth(y)) for x, y in zip(np.asarray(f1.valid, dtype=object).flat, np.asarray(f2.valid, dtype=object).flat)])))
    return out


def sub_boxes(sx, layout, pmin, c, n):
    """cell-aligned subregion corners (lo/hi index vectors are concrete, geometry symbolic)"""
    nd = len(n)
    if layout == "none":
        return {}
    out = {}
    if layout in ("two", "overlap"):
        # first: lower corner block; second: upper block (touching or overlapping along axis 0 if possible)
        hi0 = [max(1, n[a] // 2) for a in range(nd)]
        out["sa"] = ([0] * nd, hi0)
        lo1 = [0] * nd
        lo1[0] = (hi0[0] - 1) if (layout == "overlap" and hi0[0] > 0 and n[0] > 1) else min(hi0[0], n[0] - 1)
        out["sb"] = (lo1, list(n))
    boxes = {}
    for name, (lo, hi) in out.items():
        boxes[name] = ([pmin[a] + lo[a] * c[a] for a in range(nd)], [pmin[a] + hi[a] * c[a] for a in range(nd)], lo, hi)
    return boxes
