"""C14 -- subregions always stay inside, aligned with and measured in cells of their mesh (DESIGN 2/C14)."""
from __future__ import annotations

import itertools
import os
import tempfile

import numpy as np

from symx import lib, stubs

from .C10 import h_roundtrip as h_persist_hdf5  # noqa: F401  (subregion names in order and corners through the HDF5 writer/reader)
from .C13 import h_history as h_transform_history  # noqa: F401  (translate / scale / rotate90 with subregions: images of lattice boxes)
from .common import DIMSETS, sym_mesh

META = dict(
    bounds=dict(
        quick=dict(also="one Region object under two names / shared between two meshes, then in-place changes of a mesh and of the caller's Region",
                   ndim="1..3", n="<=4 per axis (10 in the 1-d decimal configuration)", candidates="symbolic box corners on concrete meshes (unit, anisotropic decimal, nm scale)",
                   layouts="touching, overlapping, nested cell-aligned boxes", selections="plane / range with symbolic coordinates"),
        thorough=dict(ndim="1..4", n="<=4 per axis", candidates="as quick, more geometries", layouts="as quick", selections="as quick, 3-d"),
    ),
    stubs=["json + pathlib inside discretisedfield.io replaced by an in-memory store whose dump applies the library's own JSONEncoder (symbolic runs); "
           "the real json module and a scratch directory in native replays"],
    assumptions=["REAL theory", "cell sizes >= 1e-9 where the code compares against the absolute 1e-12 alignment tolerance",
                 "acceptance test of a candidate box: concrete mesh geometry (floor/remainder of a symbolic corner over a symbolic cell is out of z3's reach)"],
    outside=["cells below 1e-9 (absolute 1e-12 tolerance in is_aligned)", "h5py itself (stub contract, see C10)"],
)

TF = 1e-12


def _concrete_mesh(df, cfg, subs=None):
    pmin, e, n = cfg["pmin"], cfg["edges"], tuple(cfg["n"])
    nd = len(n)
    p1 = tuple(pmin) if nd > 1 else pmin[0]
    p2 = tuple(pmin[a] + e[a] for a in range(nd)) if nd > 1 else pmin[0] + e[0]
    return df.Mesh(p1=p1, p2=p2, n=n if nd > 1 else n[0], subregions=subs)


def _lattice_box(pmin, c, lo, hi):
    return [pmin[a] + lo[a] * c[a] for a in range(len(lo))], [pmin[a] + hi[a] * c[a] for a in range(len(lo))]


def _subs_equal(sx, subs, expected, tag):
    """subs: dict name->Region ; expected: ordered list of (name, lo, hi)"""
    out = [(f"{tag}-names", list(subs) == [x[0] for x in expected])]
    for name, lo, hi in expected:
        if name in subs:
            out.append((f"{tag}-{name}-pmin", sx.eq(list(subs[name].pmin), lo)))
            out.append((f"{tag}-{name}-pmax", sx.eq(list(subs[name].pmax), hi)))
    return out


def h_attach(sx, cfg):
    """attaching a candidate box: accepted only on the lattice and inside; rejection keeps the previous subregions"""
    df = lib.load()
    n = tuple(cfg["n"])
    nd = len(n)
    pmin, e = [float(x) for x in cfg["pmin"]], [float(x) for x in cfg["edges"]]
    c = [e[a] / n[a] for a in range(nd)]
    prev_idx = cfg.get("prev", {})
    prev = {k: df.Region(p1=_lattice_box(pmin, c, lo, hi)[0], p2=_lattice_box(pmin, c, lo, hi)[1]) for k, (lo, hi) in prev_idx.items()}
    dims = DIMSETS["renamed"][nd]
    region = df.Region(p1=pmin if nd > 1 else pmin[0], p2=[pmin[a] + e[a] for a in range(nd)] if nd > 1 else pmin[0] + e[0], dims=dims, units=["nm"] * nd)
    mesh = df.Mesh(region=region, n=n if nd > 1 else n[0], subregions=prev)
    a_ = sx.reals("a", nd)
    w_ = sx.reals("w", nd)
    for x in w_:
        sx.assume(x > 0)
    b_ = [a_[i] + w_[i] for i in range(nd)]
    try:
        cand = df.Region(p1=a_, p2=b_)
    except ValueError:
        if sx.sym:
            raise
        from symx.core import PathAbort

        raise PathAbort("box width absorbed by binary64 rounding")
    mine = min(e)
    atol = 1e-12  # is_aligned's absolute tolerance
    # exact lattice membership (oracle): (x - pmin)/c is an integer in range
    ta = [(a_[i] - pmin[i]) / c[i] for i in range(nd)]
    tb = [(b_[i] - pmin[i]) / c[i] for i in range(nd)]
    on_lattice = sx.And(*[sx.And(sx.eq(ta[i], sx.floor(ta[i])), sx.eq(tb[i], sx.floor(tb[i])), ta[i] >= 0, tb[i] <= n[i]) for i in range(nd)])

    def dist(t):  # distance of t to the nearest integer
        fl = sx.floor(t)
        return sx.min(t - fl, fl + 1 - t)

    order = cfg.get("order", "last")
    newsubs = {**prev, "cand": cand} if order == "last" else ({"cand": cand, **prev} if order == "first" else {"cand": cand})
    try:
        mesh.subregions = newsubs
    except ValueError:
        # allowed only if the box is not (exactly on the lattice and inside, with a safety margin against the tolerances)
        margin_ok = sx.And(*[sx.And(a_[i] >= pmin[i], b_[i] <= pmin[i] + e[i]) for i in range(nd)])
        sx.check("reject-only-off-lattice-or-outside", sx.Not(sx.And(on_lattice, margin_ok)))
        for name, cond in _subs_equal(sx, mesh.subregions, [(k, *_lattice_box(pmin, c, lo, hi)) for k, (lo, hi) in prev_idx.items()], "previous-kept"):
            sx.check(name, cond)
        return
    for i in range(nd):
        band = 2 * TF * (mine + abs(a_[i]) + abs(b_[i]))
        sx.check(f"accepted-inside[{i}]", sx.And(a_[i] >= pmin[i] - band, b_[i] <= pmin[i] + e[i] + band))
        sx.check(f"accepted-on-lattice[{i}]", sx.And(dist(ta[i]) * c[i] <= atol * 1.001, dist(tb[i]) * c[i] <= atol * 1.001))
        sx.check(f"accepted-whole-cells[{i}]", dist((b_[i] - a_[i]) / c[i]) <= 1.001e-3 * min(c) / c[i])
        sx.check(f"accepted-at-least-one-cell[{i}]", b_[i] - a_[i] >= c[i] * (1 - 2e-3))
    s = mesh.subregions["cand"]
    sx.check("stored-corners", sx.And(sx.eq(list(s.pmin), a_), sx.eq(list(s.pmax), b_)))
    sx.check("stored-dims-units", tuple(s.dims) == tuple(dims) and tuple(s.units) == ("nm",) * nd and s.tolerance_factor == region.tolerance_factor)
    sx.check("others-as-assigned", [k for k in mesh.subregions if k != "cand"] == (list(prev_idx) if order != "alone" else []))


def h_attach_sym(sx, cfg):
    """symbolic geometry: lattice boxes are accepted and re-created with the mesh's dims/units; shifted / oversized ones refused"""
    df = lib.load()
    n = tuple(cfg["n"])
    nd = len(n)
    dims = DIMSETS[cfg.get("dims", "renamed")][nd]
    mesh, pmin, e = sym_mesh(sx, n, dims=dims, units=["um"] * nd, flip=False)
    c = [e[a] / n[a] for a in range(nd)]
    for a in range(nd):
        sx.assume(c[a] >= 1e-9)
        # offsets up to 1000 edge lengths: farther out the region's relative comparison tolerance (1e-12*|p|) and the
        # absolute 1e-12 of is_aligned are no longer small against a cell (see outside-claim)
        sx.assume(sx.And(pmin[a] <= 1000 * e[a], pmin[a] >= -1000 * e[a]))
    good = cfg["good"]  # name -> (lo, hi)
    subs = {}
    for name, (lo, hi) in good.items():
        p1, p2 = _lattice_box(pmin, c, lo, hi)
        subs[name] = df.Region(p1=p2, p2=p1) if cfg.get("swapped") else df.Region(p1=p1, p2=p2)  # corner order must not matter
    try:
        mesh.subregions = subs
    except Exception as ex:  # noqa: BLE001
        sx.check("lattice-boxes-accepted", False, exc=f"{type(ex).__name__}: {ex}")
        return
    sx.check("lattice-boxes-accepted", True)
    for name, cond in _subs_equal(sx, mesh.subregions, [(k, *_lattice_box(pmin, c, lo, hi)) for k, (lo, hi) in good.items()], "stored"):
        sx.check(name, cond)
    for name in good:
        s = mesh.subregions[name]
        sx.check(f"{name}-dims-units", tuple(s.dims) == tuple(dims) and tuple(s.units) == ("um",) * nd)
        sub_mesh = mesh[name]
        lo, hi = good[name]
        p1, p2 = _lattice_box(pmin, c, lo, hi)
        sx.check(f"mesh[{name}]-region", sx.And(sx.eq(list(sub_mesh.region.pmin), p1), sx.eq(list(sub_mesh.region.pmax), p2)))
        sx.check(f"mesh[{name}]-cell", sx.eq(list(sub_mesh.cell), c))
        sx.check(f"mesh[{name}]-n", tuple(int(v) for v in sub_mesh.n) == tuple(hi[a] - lo[a] for a in range(nd)))
    before = {k: (list(v.pmin), list(v.pmax)) for k, v in mesh.subregions.items()}
    # bad candidates: a symbolic shift by a fraction of a cell, a box sticking out, a fractional number of cells
    fr = sx.real("fr")
    sx.assume(sx.And(fr >= 0.01, fr <= 0.99))
    ax = cfg.get("axis", 0)
    lo, hi = list(good.values())[0]
    bad = []
    p1, p2 = _lattice_box(pmin, c, lo, hi)
    q1, q2 = list(p1), list(p2)
    if hi[ax] < n[ax]:
        q1[ax], q2[ax] = p1[ax] + fr * c[ax], p2[ax] + fr * c[ax]
        bad.append(("shifted-by-a-fraction", q1, q2))
    r1, r2 = list(p1), list(p2)
    r2[ax] = pmin[ax] + e[ax] + fr * c[ax]
    bad.append(("sticking-out", r1, r2))
    s1, s2 = list(p1), list(p2)
    s2[ax] = p1[ax] + (hi[ax] - lo[ax] - 1 + fr) * c[ax]
    bad.append(("fractional-cells", s1, s2))
    t1, t2 = list(p1), list(p2)
    t1[ax], t2[ax] = p1[ax] - (lo[ax] + 1) * c[ax], p2[ax] - (lo[ax] + 1) * c[ax]
    bad.append(("one-cell-outside", t1, t2))
    for name, b1, b2 in bad:
        try:
            badr = df.Region(p1=b1, p2=b2)
            mesh.subregions = {**subs, "bad": badr} if cfg.get("order", "last") == "last" else ({"bad": badr, **subs} if cfg["order"] == "first" else {"x": list(subs.values())[0], "bad": badr})
        except ValueError:
            sx.check(f"refused-{name}", True)
        else:
            sx.check(f"refused-{name}", False)
        same = list(mesh.subregions) == list(before)
        sx.check(f"kept-after-{name}", same and sx.And(*[sx.And(sx.eq(list(mesh.subregions[k].pmin), before[k][0]), sx.eq(list(mesh.subregions[k].pmax), before[k][1])) for k in before]) if same else False)
    for name, val, exc in (("non-dict", [("a", subs)], TypeError), ("non-str-key", {1: list(subs.values())[0]}, TypeError)):
        try:
            mesh.subregions = val
        except exc:
            sx.check(f"refused-{name}", True)
        except Exception as ex:  # noqa: BLE001
            sx.check(f"refused-{name}", False, exc=type(ex).__name__)
        else:
            sx.check(f"refused-{name}", False)
        sx.check(f"kept-after-{name}", list(mesh.subregions) == list(before))


def h_shared(sx, cfg):
    """history with shared objects: one Region attached under two names, a second mesh built from the first one's subregions,
    then in-place changes of one mesh and of the caller's Region -- every mesh still holds the images of its own lattice boxes"""
    df = lib.load()
    n = tuple(cfg["n"])
    nd = len(n)
    mesh1, pmin, e = sym_mesh(sx, n, flip=False)
    c = [e[a] / n[a] for a in range(nd)]
    lo, hi = cfg["box"]
    blo, bhi = _lattice_box(pmin, c, lo, hi)
    s = df.Region(p1=blo if nd > 1 else blo[0], p2=bhi if nd > 1 else bhi[0])
    mesh1.subregions = {"a": s, "b": s}
    mesh2 = df.Mesh(p1=pmin if nd > 1 else pmin[0], p2=[pmin[a] + e[a] for a in range(nd)] if nd > 1 else pmin[0] + e[0], n=n if nd > 1 else n[0], subregions=mesh1.subregions)
    t = sx.reals("t", nd)
    step = cfg.get("step", "translate")
    if step == "translate":
        mesh1.translate(sx.arr(t) if nd > 1 else t[0], inplace=True)
        img = lambda x: [x[a] + t[a] for a in range(nd)]  # noqa: E731
    else:
        mesh1.scale(2.0, reference_point=pmin if nd > 1 else pmin[0], inplace=True)
        img = lambda x: [pmin[a] + 2.0 * (x[a] - pmin[a]) for a in range(nd)]  # noqa: E731
    for nm in ("a", "b"):
        for name, cond in _subs_equal(sx, {nm: mesh1.subregions[nm]}, [(nm, img(blo), img(bhi))], "changed-mesh"):
            sx.check(name, cond)
        for name, cond in _subs_equal(sx, {nm: mesh2.subregions[nm]}, [(nm, blo, bhi)], "other-mesh"):
            sx.check(name, cond)
    sx.check("caller-region-not-moved", sx.And(sx.eq(list(s.pmin), blo), sx.eq(list(s.pmax), bhi)))
    # the caller moves its own Region object afterwards
    u = sx.reals("u", nd)
    s.translate(sx.arr(u) if nd > 1 else u[0], inplace=True)
    for nm in ("a", "b"):
        for name, cond in _subs_equal(sx, {nm: mesh1.subregions[nm]}, [(nm, img(blo), img(bhi))], "changed-mesh-after-caller-edit"):
            sx.check(name, cond)
        for name, cond in _subs_equal(sx, {nm: mesh2.subregions[nm]}, [(nm, blo, bhi)], "other-mesh-after-caller-edit"):
            sx.check(name, cond)


def h_aligned(sx, cfg):
    """is_aligned: True iff cell sizes agree and the origins differ by whole cells (concrete first mesh, symbolic second)"""
    df = lib.load()
    n = tuple(cfg["n"])
    nd = len(n)
    m1 = _concrete_mesh(df, cfg)
    pmin, e = cfg["pmin"], cfg["edges"]
    c = [e[a] / n[a] for a in range(nd)]
    k = sx.ints("k", nd, lo=-3, hi=3)
    d = sx.reals("d", nd)
    eps = sx.reals("eps", nd)
    n2 = tuple(cfg.get("n2", n))
    for a in range(nd):
        sx.assume(sx.And(d[a] >= 0, d[a] < c[a]))
        sx.assume(sx.And(eps[a] > -0.5, eps[a] < 0.5))
    c2 = [c[a] * (1 + eps[a]) for a in range(nd)]
    p1 = [pmin[a] + k[a] * c[a] + d[a] for a in range(nd)]
    p2 = [p1[a] + n2[a] * c2[a] for a in range(nd)]
    m2 = df.Mesh(p1=p1, p2=p2, n=n2)
    got = m1.is_aligned(m2)
    sx.observe("aligned", got)
    tol = 1e-12
    same_cell = sx.And(*[sx.eq(eps[a], 0) for a in range(nd)])
    whole = sx.And(*[sx.eq(d[a], 0) for a in range(nd)])
    sx.check("aligned-when-same-cell-and-whole-offset", sx.Implies(sx.And(same_cell, whole), got))
    far_cell = sx.Or(*[sx.Or(c2[a] - c[a] > tol + 1.01e-5 * c2[a], c[a] - c2[a] > tol + 1.01e-5 * c2[a]) for a in range(nd)])
    sx.check("not-aligned-when-cells-differ", sx.Implies(far_cell, sx.Not(got)))
    off = sx.Or(*[sx.And(d[a] > tol * 1.01, d[a] < c[a] - tol * 1.01) for a in range(nd)])
    sx.check("not-aligned-when-offset-fractional", sx.Implies(sx.And(same_cell, off), sx.Not(got)))
    try:
        m1.is_aligned("mesh")
    except TypeError:
        sx.check("non-mesh-refused", True)
    else:
        sx.check("non-mesh-refused", False)
    # far-away origins (native): the allowed misalignment must not grow with the distance in cells
    with sx.native():
        for N, shift in ((50, 5e-4), (400, 4e-3), (1000, 1e-2), (4000, 2e-2), (123456, 0.3)):
            far = df.Mesh(p1=[pmin[a] + (N + shift) * c[a] for a in range(nd)], p2=[pmin[a] + (N + shift + n[a]) * c[a] for a in range(nd)], n=n)
            sx.check(f"far-shifted-not-aligned[{N}]", not m1.is_aligned(far))
            on = df.Mesh(p1=[pmin[a] + N * c[a] for a in range(nd)], p2=[pmin[a] + (N + n[a]) * c[a] for a in range(nd)], n=n)
            if all(float(v).is_integer() for v in list(c) + list(pmin)):
                sx.check(f"far-whole-cells-aligned[{N}]", bool(m1.is_aligned(on)))


def _overlap_expected(layout, ax, j0, j1, pmin, c, nd, plane):
    """subregions kept by a selection of cells j0..j1 along ax: those with positive overlap, clipped to the slab"""
    out = []
    for name, lo, hi in layout:
        if lo[ax] <= j1 and j0 < hi[ax]:
            if plane:
                rest = [a for a in range(nd) if a != ax]
                out.append((name, [pmin[a] + lo[a] * c[a] for a in rest], [pmin[a] + hi[a] * c[a] for a in rest]))
            else:
                l2, h2 = list(lo), list(hi)
                l2[ax], h2[ax] = max(lo[ax], j0), min(hi[ax], j1 + 1)
                out.append((name, *_lattice_box(pmin, c, l2, h2)))
    return out


def h_select(sx, cfg):
    """plane / range selection keeps exactly the overlapping subregions, clipped to the selection, on the result's lattice"""
    df = lib.load()
    n = tuple(cfg["n"])
    nd = len(n)
    ax = cfg["axis"]
    layout = [(nm, list(lo), list(hi)) for nm, lo, hi in cfg["layout"]]
    if cfg.get("symgeo"):
        mesh0, pmin, e = sym_mesh(sx, n, flip=False)
        concrete = False
    else:
        conv = (lambda v: int(v)) if cfg.get("int_corners") else float  # integer-typed corners are kept as int arrays by the library
        pmin = [conv(x) for x in cfg.get("pmin", [-1.5, 0.25, 3.0, 0.0][:nd])]
        e = [conv(x) for x in cfg.get("edges", [2.0, 1.5, 0.75, 2.0][:nd])]
        cfg = dict(cfg, pmin=pmin, edges=e)
        concrete = True
    c = [e[a] / n[a] for a in range(nd)]
    if concrete and cfg.get("from_vertices"):
        # the realistic way to write down cell-aligned corners in floats: take them from mesh.vertices (one ulp off pmin+k*c)
        m0 = _concrete_mesh(df, cfg)
        verts = [np.asarray(getattr(m0.vertices, d)) for d in m0.region.dims]
        subs = {nm: df.Region(p1=[float(verts[a][lo[a]]) for a in range(nd)] if nd > 1 else float(verts[0][lo[0]]),
                              p2=[float(verts[a][hi[a]]) for a in range(nd)] if nd > 1 else float(verts[0][hi[0]])) for nm, lo, hi in layout}
        mesh = _concrete_mesh(df, cfg, subs)
    else:
        if cfg.get("int_corners"):
            def box(lo, hi):
                p1, p2 = _lattice_box(pmin, c, lo, hi)
                assert all(float(v).is_integer() for v in p1 + p2), "int_corners layout must sit on integer coordinates"
                return [int(v) for v in p1], [int(v) for v in p2]
        else:
            box = lambda lo, hi: _lattice_box(pmin, c, lo, hi)  # noqa: E731
        subs = {nm: df.Region(p1=box(lo, hi)[0], p2=box(lo, hi)[1]) for nm, lo, hi in layout}
        mesh = _concrete_mesh(df, cfg, subs) if concrete else df.Mesh(region=mesh0.region, n=n, subregions=subs)
    dims = mesh.region.dims
    mine = min(e) if concrete else None
    if mine is None:
        mine = e[0]
        for x in e[1:]:
            mine = sx.min(mine, x)
    plane = cfg["kind"] == "plane"

    def pin_cell(v):
        # concrete geometry: the library writes the selected cell centre into float arrays, so the cell of a symbolic
        # coordinate has to be decided (forked) first -- one path per cell, the coordinate stays symbolic inside it
        if concrete and sx.sym:
            for j in range(n[ax] - 1):
                if sx.decide(v < pmin[ax] + (j + 1) * c[ax]):
                    return
    if plane:
        x = sx.real("x")
        sx.assume(sx.And(x >= pmin[ax], x <= pmin[ax] + e[ax]))
        band = 2 * TF * (mine + abs(x))
        pin_cell(x)
        try:
            r = mesh.sel(**{dims[ax]: x})
        except Exception as ex:  # noqa: BLE001
            sx.check("selection-inside-accepted", False, exc=f"{type(ex).__name__}: {ex}")
            if os.environ.get("C14DBG"):
                import traceback
                traceback.print_exc()
            return
        lo_b = hi_b = x
    else:
        u, w = sx.real("u"), sx.real("w")
        sx.assume(sx.And(u >= pmin[ax], u <= w, w <= pmin[ax] + e[ax]))
        band = 2 * TF * (mine + abs(u) + abs(w))
        pin_cell(u)
        pin_cell(w)
        try:
            r = mesh.sel(**{dims[ax]: (u, w)})
        except Exception as ex:  # noqa: BLE001
            sx.check("selection-inside-accepted", False, exc=f"{type(ex).__name__}: {ex}")
            if os.environ.get("C14DBG"):
                import traceback
                traceback.print_exc()
            return
        lo_b, hi_b = u, w
    sx.check("selection-inside-accepted", True)
    alts = []
    for j0 in range(n[ax]):
        for j1 in range(j0, n[ax]):
            if plane and j1 != j0:
                continue
            inb = sx.And(lo_b >= pmin[ax] + j0 * c[ax] - band, lo_b <= pmin[ax] + (j0 + 1) * c[ax] + band,
                         hi_b >= pmin[ax] + j1 * c[ax] - band, hi_b <= pmin[ax] + (j1 + 1) * c[ax] + band)
            exp = _overlap_expected(layout, ax, j0, j1, pmin, c, nd, plane)
            names_ok = list(r.subregions) == [x_[0] for x_ in exp]
            if not names_ok:
                continue
            conds = [inb]
            if concrete:
                tol = [1e-9 * (abs(pmin[a]) + e[a]) for a in range(nd)]
                rest = [a for a in range(nd) if a != ax] if plane else list(range(nd))
                for name, lo, hi in exp:
                    s = r.subregions[name]
                    for q, a in enumerate(rest):
                        conds += [s.pmin[q] <= lo[q] + tol[a], lo[q] <= s.pmin[q] + tol[a], s.pmax[q] <= hi[q] + tol[a], hi[q] <= s.pmax[q] + tol[a]]
            else:
                for name, lo, hi in exp:
                    s = r.subregions[name]
                    conds += [sx.eq(list(s.pmin), lo), sx.eq(list(s.pmax), hi)]
            if not plane:
                conds.append(tuple(int(v) for v in r.n)[ax] == j1 - j0 + 1)
            alts.append(sx.And(*conds))
    sx.check("kept-subregions-are-the-overlapping-ones-clipped", sx.Or(*alts) if alts else False)
    # invariant on the result: each kept subregion inside the result region (checked by re-attaching them: the setter validates)
    try:
        r.subregions = dict(r.subregions)
        sx.check("result-subregions-valid-for-result-mesh", True)
    except ValueError as ex:
        sx.check("result-subregions-valid-for-result-mesh", False, exc=str(ex)[:200])
    for nm in r.subregions:
        sx.check(f"{nm}-dims-units", tuple(r.subregions[nm].dims) == tuple(r.region.dims) and tuple(r.subregions[nm].units) == tuple(r.region.units))


def h_select_fp(sx, cfg):
    """binary64 face coincidence (native execution, every cell range of the mesh): subregion corners are taken from
    mesh.vertices -- the way cell-aligned corners are written down in floats -- and every range of cells is selected by its
    outermost cell centres; the request must not be refused and must keep exactly the overlapping subregions"""
    df = lib.load()
    with sx.native():
        n = tuple(cfg["n"])
        nd = len(n)
        ax = cfg["axis"]
        layout = [(nm, list(lo), list(hi)) for nm, lo, hi in cfg["layout"]]
        m0 = _concrete_mesh(df, cfg)
        verts = [np.asarray(getattr(m0.vertices, d)) for d in m0.region.dims]
        cells = np.asarray(getattr(m0.cells, m0.region.dims[ax]))
        subs = {nm: df.Region(p1=[float(verts[a][lo[a]]) for a in range(nd)] if nd > 1 else float(verts[0][lo[0]]),
                              p2=[float(verts[a][hi[a]]) for a in range(nd)] if nd > 1 else float(verts[0][hi[0]])) for nm, lo, hi in layout}
        try:
            mesh = _concrete_mesh(df, cfg, subs)
        except ValueError as ex:
            sx.check("vertex-cornered-subregions-accepted", False, exc=str(ex)[:200])
            return
        sx.check("vertex-cornered-subregions-accepted", True)
        d = mesh.region.dims[ax]
        pairs = [tuple(x) for x in cfg["ranges"]] if cfg.get("ranges") else [(j0, j1) for j0 in range(n[ax]) for j1 in range(j0, n[ax])]
        for j0, j1 in pairs:
            if True:
                tag = f"[{j0}:{j1}]"
                try:
                    r = mesh.sel(**{d: (float(cells[j0]), float(cells[j1]))})
                except Exception as ex:  # noqa: BLE001
                    sx.check(f"range-accepted{tag}", False, exc=f"{type(ex).__name__}: {str(ex)[:160]}")
                    continue
                sx.check(f"range-accepted{tag}", True)
                want = [nm for nm, lo, hi in layout if lo[ax] <= j1 and j0 < hi[ax]]
                sx.check(f"kept-names{tag}", list(r.subregions) == want)
                ok = int(r.n[ax]) == j1 - j0 + 1
                for nm, lo, hi in layout:
                    if nm in r.subregions and nm in want:
                        s_ = r.subregions[nm]
                        l2, h2 = max(lo[ax], j0), min(hi[ax], j1 + 1)
                        ok = ok and abs(s_.pmin[ax] - verts[ax][l2]) <= 1e-9 * abs(verts[ax][-1] - verts[ax][0]) and abs(s_.pmax[ax] - verts[ax][h2]) <= 1e-9 * abs(verts[ax][-1] - verts[ax][0])
                sx.check(f"clipped-to-slab{tag}", bool(ok))


def h_persist_json(sx, cfg):
    """save_subregions / load_subregions: same names (order) and corners after the round trip"""
    df = lib.load()
    import discretisedfield.io as dio

    n = tuple(cfg["n"])
    nd = len(n)
    layout = [(nm, list(lo), list(hi)) for nm, lo, hi in cfg["layout"]]
    dims = DIMSETS[cfg.get("dims", "default")][nd]
    mesh0, pmin, e = sym_mesh(sx, n, dims=dims, units=["nm"] * nd, flip=False)
    c = [e[a] / n[a] for a in range(nd)]
    for a in range(nd):
        # offsets up to 1000 edge lengths (beyond that the region's relative tolerance exceeds a cell, see h_attach_sym)
        sx.assume(sx.And(pmin[a] <= 1000 * e[a], pmin[a] >= -1000 * e[a], c[a] >= 1e-9))
    subs = {nm: df.Region(p1=_lattice_box(pmin, c, lo, hi)[0], p2=_lattice_box(pmin, c, lo, hi)[1]) for nm, lo, hi in layout}
    mesh = df.Mesh(region=mesh0.region, n=n, subregions=subs)
    fresh = df.Mesh(region=mesh0.region, n=n)
    if sx.sym:
        with stubs.json_sidecar_stub(dio) as fs:
            mesh.save_subregions("field.omf")
            sx.check("sidecar-name", list(fs.files) == ["field.omf.subregions.json"])
            fresh.load_subregions("field.omf")
    else:
        with tempfile.TemporaryDirectory() as d:
            fn = os.path.join(d, "field.omf")
            mesh.save_subregions(fn)
            sx.check("sidecar-name", os.listdir(d) == ["field.omf.subregions.json"])
            fresh.load_subregions(fn)
    exp = [(nm, *_lattice_box(pmin, c, lo, hi)) for nm, lo, hi in layout]
    for name, cond in _subs_equal(sx, fresh.subregions, exp, "reloaded"):
        sx.check(name, cond)
    for nm in fresh.subregions:
        s = fresh.subregions[nm]
        sx.check(f"{nm}-dims-units", tuple(s.dims) == tuple(dims) and tuple(s.units) == ("nm",) * nd)
    sx.check("source-kept", list(mesh.subregions) == [x[0] for x in layout])
    # loading into other meshes: the setter's validation applies (inside, whole cells, on the lattice; the mesh's names and units)
    other_dims = tuple(reversed(DIMSETS["renamed" if cfg.get("dims", "default") == "default" else "default"][nd]))
    renamed = df.Mesh(region=df.Region(p1=pmin, p2=[pmin[a] + e[a] for a in range(nd)], dims=other_dims, units=["um"] * nd), n=n)
    keep_lo, keep_hi = layout[0][1], layout[0][2]
    prev = df.Region(p1=_lattice_box(pmin, c, keep_lo, keep_hi)[0], p2=_lattice_box(pmin, c, keep_lo, keep_hi)[1])
    # a mesh that covers only the first cell layer along axis 0 and already holds a subregion: most saved boxes stick out
    small_n = tuple([1] + list(n[1:]))
    small = df.Mesh(p1=pmin, p2=[pmin[0] + c[0]] + [pmin[a] + e[a] for a in range(1, nd)], n=small_n,
                    subregions={"kept": df.Region(p1=pmin, p2=[pmin[0] + c[0]] + [pmin[a] + e[a] for a in range(1, nd)])})
    sticks_out = any(hi[0] > 1 for _, lo, hi in layout)
    if sx.sym:
        with stubs.json_sidecar_stub(dio):
            mesh.save_subregions("field.omf")
            renamed.load_subregions("field.omf")
            try:
                small.load_subregions("field.omf")
                refused = False
            except ValueError:
                refused = True
    else:
        with tempfile.TemporaryDirectory() as d:
            fn = os.path.join(d, "field.omf")
            mesh.save_subregions(fn)
            renamed.load_subregions(fn)
            try:
                small.load_subregions(fn)
                refused = False
            except ValueError:
                refused = True
    for nm in renamed.subregions:
        s_ = renamed.subregions[nm]
        sx.check(f"other-mesh-{nm}-carries-its-names-units", tuple(s_.dims) == tuple(other_dims) and tuple(s_.units) == ("um",) * nd)
    sx.check("other-mesh-names", list(renamed.subregions) == [x[0] for x in layout])
    if sticks_out:
        sx.check("sticking-out-side-car-refused", refused)
        sx.check("previous-kept-after-refusal", list(small.subregions) == ["kept"])
    else:
        sx.check("fitting-side-car-replaces", (not refused) and list(small.subregions) == [x[0] for x in layout])


LAYOUTS = {
    1: [("left", [0], [2]), ("right", [2], [4]), ("mid", [1], [3])],
    2: [("a", [0, 0], [2, 2]), ("b", [2, 0], [3, 2]), ("c", [1, 1], [3, 2])],
    3: [("a", [0, 0, 0], [1, 2, 2]), ("b", [1, 0, 0], [2, 2, 1]), ("in", [0, 1, 1], [2, 2, 2])],
    4: [("a", [0, 0, 0, 0], [1, 2, 1, 2]), ("b", [1, 0, 0, 1], [2, 2, 1, 2])],
}
NS = {1: (4,), 2: (3, 2), 3: (2, 2, 2), 4: (2, 2, 1, 2)}


def tasks(tier):
    q = tier == "quick"
    t = []
    big = dict(max_paths=20000, wall_budget=1500, timeout_ms=60000)
    geos = [dict(pmin=[-1.0], edges=[4.0], n=[4], prev={"p": ([0], [1])}), dict(pmin=[0.1, -0.3], edges=[0.9, 1.2], n=[3, 4], prev={"p": ([0, 0], [1, 4]), "q": ([1, 1], [3, 2])}),
            dict(pmin=[0.0, 0.0, 0.0], edges=[6e-9, 4e-9, 3e-9], n=[3, 2, 1], prev={})]
    if not q:
        geos += [dict(pmin=[5.0], edges=[0.3], n=[3], prev={}), dict(pmin=[0.0, 0.0], edges=[2e-9, 5e-9], n=[2, 1], prev={"p": ([0, 0], [2, 1])}),
                 dict(pmin=[0.0, 1.0, 2.0, 3.0], edges=[2.0, 1.0, 1.0, 2.0], n=[2, 1, 1, 2], prev={})]
    for gi, g in enumerate(geos):
        for order in (("last", "first", "alone") if (not q or gi == 1) else (("last", "first", "alone")[gi % 3],)):
            t.append(dict(harness="h_attach", cfg=dict(g, order=order), limits=big))
    for nd in ((1, 2) if q else (1, 2, 3)):
        lay = LAYOUTS[nd] if nd < 3 else LAYOUTS[3][:1]
        for ax in range(nd if not q else 1):
            for order in (("first", "other") if not q else (("first", "other")[nd % 2],)):
                t.append(dict(harness="h_attach_sym", cfg=dict(n=list(NS[nd]), good={nm: (lo, hi) for nm, lo, hi in lay}, axis=ax, swapped=bool(nd % 2), order=order), limits=big))
    al = [dict(pmin=[0.0], edges=[4.0], n=[4]), dict(pmin=[1e-9, -2e-9], edges=[6e-9, 4e-9], n=[3, 4], n2=[2, 1])]
    if not q:
        al += [dict(pmin=[0.0, 0.0, 0.0], edges=[1.0, 2.0, 0.3], n=[2, 2, 3]), dict(pmin=[0.5], edges=[0.3], n=[3], n2=[5])]
    for g in al:
        t.append(dict(harness="h_aligned", cfg=g, limits=big))
    for n, box, step in ([((3,), ([1], [2]), "translate"), ((2, 3), ([0, 1], [2, 3]), "scale")] if q else
                         [((3,), ([1], [2]), "translate"), ((3,), ([0], [2]), "scale"), ((2, 3), ([0, 1], [2, 3]), "scale"), ((2, 3), ([1, 0], [2, 2]), "translate"), ((2, 1, 2), ([0, 0, 1], [1, 1, 2]), "translate")]):
        t.append(dict(harness="h_shared", cfg=dict(n=list(n), box=[list(box[0]), list(box[1])], step=step), limits=big))
    for nd in ((1, 2, 3) if q else (1, 2, 3, 4)):
        lay = LAYOUTS[nd]
        for ax in range(nd):
            for kind in ("plane", "range"):
                if nd == 1 and kind == "plane":
                    continue  # a 1-d mesh has no plane mesh (Mesh.sel refuses; Field.sel returns the cell value, see C07)
                t.append(dict(harness="h_select", cfg=dict(n=list(NS[nd]), layout=lay, axis=ax, kind=kind), limits=big))
    # integer-typed region and subregion corners with fractional cells (cell 0.5 / 0.25)
    t.append(dict(harness="h_select", cfg=dict(n=[8], pmin=[0], edges=[4], layout=[("s", [2], [6]), ("t", [4], [8])], axis=0, kind="range", int_corners=True), limits=big))
    t.append(dict(harness="h_select", cfg=dict(n=[4, 2], pmin=[-1, 0], edges=[1, 2], layout=[("s", [0, 0], [4, 1]), ("t", [0, 1], [4, 2])], axis=0, kind="range", int_corners=True), limits=big))
    if not q:
        t.append(dict(harness="h_select", cfg=dict(n=[2, 4], pmin=[0, -2], edges=[2, 2], layout=[("s", [0, 0], [2, 2]), ("t", [1, 2], [2, 4])], axis=1, kind="range", int_corners=True), limits=big))
        t.append(dict(harness="h_select", cfg=dict(n=[2, 4], pmin=[0, -2], edges=[2, 2], layout=[("s", [0, 0], [2, 2]), ("t", [1, 2], [2, 4])], axis=1, kind="plane", int_corners=True), limits=big))
    # thorough: symbolic mesh geometry as well (1-d and 2-d; minutes per task: nonlinear floor/remainder terms)
    if not q:
        t.append(dict(harness="h_select", cfg=dict(n=[4], layout=LAYOUTS[1], axis=0, kind="range", symgeo=True), limits=dict(big, timeout_ms=300000, wall_budget=3300)))
        t.append(dict(harness="h_select", cfg=dict(n=[3, 2], layout=LAYOUTS[2], axis=0, kind="plane", symgeo=True), limits=dict(big, timeout_ms=300000, wall_budget=3300)))
        t.append(dict(harness="h_select", cfg=dict(n=[3, 2], layout=LAYOUTS[2], axis=1, kind="range", symgeo=True), limits=dict(big, timeout_ms=300000, wall_budget=3300)))
    # binary64 face coincidence: decimal geometries, subregion corners from mesh.vertices, every cell range (native)
    fp = [dict(n=[10], pmin=[0.0], edges=[1.0], layout=[("s", [0], [6]), ("t", [6], [10])], axis=0),
          dict(n=[4, 3], pmin=[0.1, -0.3], edges=[1.2, 0.9], layout=[("s", [0, 0], [3, 2]), ("t", [1, 1], [4, 3])], axis=0),
          dict(n=[4, 3], pmin=[0.1, -0.3], edges=[1.2, 0.9], layout=[("s", [0, 0], [3, 2]), ("t", [1, 1], [4, 3])], axis=1),
          dict(n=[7], pmin=[0.0], edges=[0.7], layout=[("s", [2], [5])], axis=0)]
    if not q:
        fp += [dict(n=[12], pmin=[-0.3], edges=[3.6], layout=[("s", [k], [k + 3])], axis=0) for k in range(0, 9, 2)]
        fp += [dict(n=[3, 9, 2], pmin=[0, 0, 0], edges=[3e-9, 2.7e-9, 1e-9], layout=[("s", [0, 2, 0], [3, 7, 1])], axis=1)]
    # long axes: an overlap of a single cell at either end of the range counts (tolerances must not grow with the number of cells)
    fp.append(dict(n=[3000], pmin=[0.0], edges=[3000.0], layout=[("s", [10], [11]), ("t", [500], [503]), ("u", [2999], [3000])], axis=0,
                   ranges=[[0, 10], [10, 10], [11, 499], [11, 500], [502, 2999], [503, 2998], [0, 2999], [2999, 2999]]))
    fp.append(dict(n=[1500, 2], pmin=[-1.0, 0.0], edges=[3.0, 1.0], layout=[("s", [0, 0], [1, 2]), ("t", [749, 1], [751, 2])], axis=0,
                   ranges=[[0, 0], [1, 748], [1, 749], [750, 1499], [751, 1499]]))
    for g in fp:
        t.append(dict(harness="h_select_fp", cfg=g))
    for nd in ((1, 2, 3) if q else (1, 2, 3, 4)):
        t.append(dict(harness="h_persist_json", cfg=dict(n=list(NS[nd]), layout=LAYOUTS[nd], dims="renamed" if nd % 2 else "default"), limits=big))
    from . import C10

    for x in [x for x in C10.tasks(tier) if x["harness"] == "h_roundtrip" and x["cfg"].get("subregions")][:: 2 if q else 1]:
        t.append(dict(harness="h_persist_hdf5", cfg=x["cfg"], limits=x.get("limits", {})))
    # transformations of meshes with subregions (C13's inductive-step harness: the stored subregions are the images of the lattice boxes)
    from . import C13

    picked = [x for x in C13.tasks(tier) if x["harness"] == "h_history" and x["cfg"].get("obj") == "mesh" and x["cfg"].get("subregions") == "two"]
    if q:
        picked = [x for x in picked if len(x["cfg"]["steps"]) == 1]
    for x in picked:
        t.append(dict(harness="h_transform_history", cfg=x["cfg"], limits=x.get("limits", {})))
    return t
