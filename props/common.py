"""shared harness helpers: symbolic geometry, label sets, field construction"""
from __future__ import annotations

import numpy as np

from symx import lib

# dimension-name sets: default spelling and a renamed one (non-default, different order of letters)
DIMSETS = {
    "default": {1: ("x",), 2: ("x", "y"), 3: ("x", "y", "z"), 4: ("x0", "x1", "x2", "x3")},
    "renamed": {1: ("u",), 2: ("w", "u"), 3: ("u", "w", "v"), 4: ("d", "a", "c", "b")},
    "shuffled": {1: ("y",), 2: ("y", "x"), 3: ("z", "x", "y"), 4: ("z", "y", "x", "w")},  # the default component labels in another order
    "vnamed": {1: ("V",), 2: ("I", "V"), 3: ("x", "V", "z"), 4: ("x", "y", "z", "V")},  # 'dV', 'dS' ... are real attributes of a mesh
    "kprefixed": {1: ("k_a",), 2: ("k_b", "k_a"), 3: ("k_a", "kb", "k_c"), 4: ("k_a", "k_b", "k_c", "k_d")},
}


def region_inputs(sx, nd, prefix=""):
    """symbolic box: pmin free, edge > 0 free, corners given unsorted (flip bit per axis)

    returns pmin(list), edge(list), p1, p2 (lists as a caller would pass them)"""
    pmin = sx.reals(prefix + "pmin", nd)
    e = sx.reals(prefix + "e", nd)
    for x in e:
        sx.assume(x > 0)
    flip = [sx.bool(f"{prefix}flip{a}") for a in range(nd)]
    p1 = [sx.ite(flip[a], pmin[a] + e[a], pmin[a]) for a in range(nd)]
    p2 = [sx.ite(flip[a], pmin[a], pmin[a] + e[a]) for a in range(nd)]
    return pmin, e, p1, p2


def sym_mesh(sx, n, dims=None, units=None, bc="", prefix="", flip=True):
    """mesh with symbolic geometry and concrete cell counts"""
    df = lib.load()
    nd = len(n)
    if flip:
        pmin, e, p1, p2 = region_inputs(sx, nd, prefix)
    else:
        pmin = sx.reals(prefix + "pmin", nd)
        e = sx.reals(prefix + "e", nd)
        for x in e:
            sx.assume(x > 0)
        p1, p2 = pmin, [pmin[a] + e[a] for a in range(nd)]
    region = df.Region(p1=p1, p2=p2, dims=dims, units=units)
    mesh = df.Mesh(region=region, n=tuple(n), bc=bc)
    return mesh, pmin, e


def cells_of(n):
    return list(np.ndindex(*n))
