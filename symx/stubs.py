"""Environment stubs: in-memory files + JSON (contract: what is dumped through the library's own encoder is what is loaded;
numbers exact, tuples/arrays become lists)."""
from __future__ import annotations

import contextlib

import numpy as np

from .scalars import Sym


class MemFS:
    """path -> stored object"""

    def __init__(self):
        self.files = {}


class _Handle:
    def __init__(self, fs, name, mode):
        self.fs, self.name, self.mode = fs, name, mode

    def __enter__(self):
        return self

    def __exit__(self, *a):
        return False


class FakePathModule:
    """stands in for the `pathlib` module inside discretisedfield.io: paths are real pure paths (suffix, name, ... work) whose
    open() yields a handle on the MemFS"""

    def __init__(self, fs):
        import pathlib as _pl

        self._fs = fs
        outer = self

        class Path(_pl.PurePosixPath):
            def open(self, mode="rt", encoding=None):
                key = str(self)
                if "r" in mode and key not in outer._fs.files:
                    raise FileNotFoundError(key)
                return _Handle(outer._fs, key, mode)

            def exists(self):
                return str(self) in outer._fs.files

        self.Path = Path
        self.PurePath = _pl.PurePath


def _encode(o, encoder):
    """what json.dump(o, cls=encoder) followed by json.load would give back, keeping symbolic numbers as they are"""
    if isinstance(o, Sym):
        return o
    if isinstance(o, (bool, np.bool_)):
        return bool(o)
    if isinstance(o, (int, float, str)) or o is None:
        return o
    if isinstance(o, (np.integer,)):
        return int(o)
    if isinstance(o, (np.floating,)):
        return float(o)
    if isinstance(o, dict):
        out = {}
        for k, v in o.items():
            if not isinstance(k, (str, int, float, bool)) and k is not None:
                raise TypeError(f"keys must be str, int, float, bool or None, not {type(k).__name__}")
            out[str(k) if not isinstance(k, str) else k] = _encode(v, encoder)
        return out
    if isinstance(o, (list, tuple)):
        return [_encode(v, encoder) for v in o]
    r = encoder.default(o)
    if r is None:
        raise TypeError(f"Object of type {type(o).__name__} is not JSON serializable")
    return _encode(r, encoder)


class FakeJSONModule:
    def __init__(self, real_json):
        self._real = real_json
        self.JSONEncoder = real_json.JSONEncoder

    def dump(self, obj, f, cls=None, **kw):
        enc = (cls or self._real.JSONEncoder)()
        f.fs.files[f.name] = _encode(obj, enc)

    def load(self, f, **kw):
        import copy

        return copy.deepcopy(f.fs.files[f.name])

    def __getattr__(self, name):
        return getattr(self._real, name)


@contextlib.contextmanager
def json_sidecar_stub(dio_module):
    """patch discretisedfield.io's `json` and `pathlib` with the in-memory versions for the duration of the block"""
    fs = MemFS()
    old_json, old_path = dio_module.json, dio_module.pathlib
    dio_module.json = FakeJSONModule(old_json)
    dio_module.pathlib = FakePathModule(fs)
    try:
        yield fs
    finally:
        dio_module.json, dio_module.pathlib = old_json, old_path


# ----------------------------------------------------------------------------------------------------------------
# scipy.fft stub: the exact discrete Fourier transform over the reals for axis lengths whose roots of unity are
# algebraic of low degree (1, 2, 3, 4, 6: rationals, i, and sqrt(3)).  Contract (scipy.fft documentation):
#   fftn(x, axes)[j]  = sum_r x[r] * exp(-2 pi i * sum_a j_a r_a / n_a)            (unnormalised, natural bin order)
#   ifftn             = inverse with the factor 1/prod(n_a)
#   rfftn             = fftn of real input, last axis restricted to bins 0 .. n//2
#   irfftn(X, s)      = real inverse of the Hermitian completion of X along the last axis (output length s[-1],
#                       default 2*(m-1)), imaginary parts of the self-conjugate bins ignored
# fftfreq / rfftfreq / fftshift / ifftshift are the real SciPy functions.
class ExactFFT:
    SUPPORTED = (1, 2, 3, 4, 6)

    def __init__(self, real_spfft):
        self._real = real_spfft
        self.calls = []

    def __getattr__(self, name):
        return getattr(self._real, name)

    # -- roots of unity -----------------------------------------------------------------------------------------
    @staticmethod
    def _s3():
        from .scalars import SymReal
        import z3

        return SymReal(z3.RealVal(3)).sqrt()

    def twiddle(self, n, p, sign=-1):
        """exp(sign * 2 pi i p / n) as (re, im) with exact entries"""
        from fractions import Fraction as F

        if n not in self.SUPPORTED:
            from .core import Unsupported

            raise Unsupported(f"exact DFT stub: axis length {n} (supported: {self.SUPPORTED})")
        p %= n
        h = F(1, 2)
        if n == 1:
            re, im = 1, 0
        elif n == 2:
            re, im = (1, 0) if p == 0 else (-1, 0)
        elif n == 4:
            re, im = [(1, 0), (0, 1), (-1, 0), (0, -1)][p]
        else:
            s3h = self._s3() * 0.5
            k = p * (6 // n)  # in sixths of a turn
            re, im = [(1, 0), (h, s3h), (-h, s3h), (-1, 0), (-h, -s3h), (h, -s3h)][k]
        if sign < 0:
            im = -im
        return (float(re) if not hasattr(re, "t") else re), (float(im) if not hasattr(im, "t") else im)

    # -- helpers ------------------------------------------------------------------------------------------------
    @staticmethod
    def _parts(x):
        from .scalars import SymComplex, _py

        x = _py(x)
        if isinstance(x, SymComplex):
            return x.re, x.im
        if isinstance(x, complex):
            return x.real, x.imag
        return x, 0.0

    @staticmethod
    def _mk(re, im):
        from .scalars import SymComplex

        return SymComplex(re, im)

    def _dft_axis(self, a, axis, sign, scale=None):
        import numpy as np
        from .sarray import plain

        a = np.asarray(plain(a), dtype=object)
        n = a.shape[axis]
        out = np.empty(a.shape, dtype=object)
        a_m = np.moveaxis(a, axis, 0)
        o_m = np.moveaxis(out, axis, 0)
        for idx in np.ndindex(*a_m.shape[1:]):
            col = [self._parts(a_m[(r,) + idx]) for r in range(n)]
            for j in range(n):
                re, im = 0.0, 0.0
                for r in range(n):
                    wr, wi = self.twiddle(n, j * r, sign)
                    xr, xi = col[r]
                    re = re + (xr * wr - xi * wi)
                    im = im + (xr * wi + xi * wr)
                if scale is not None:
                    re, im = re / scale, im / scale
                o_m[(j,) + idx] = self._mk(re, im)
        return out

    def _axes(self, a, axes):
        import numpy as np

        nd = np.ndim(a)
        if axes is None:
            return list(range(nd))
        return [int(x) % nd for x in axes]

    def _clobber(self, x, kw):
        """overwrite_x=True allows SciPy to destroy the input (complex input is transformed in place): afterwards the caller's
        array holds unrelated values -- modelled by fresh unconstrained symbols"""
        if not kw.get("overwrite_x"):
            return
        from . import core
        from .scalars import SymComplex, SymReal

        c = core.ctx()
        if c is None or not isinstance(x, np.ndarray) or x.dtype != object:
            return
        for idx in np.ndindex(*x.shape):
            x[idx] = SymComplex(SymReal(c.fresh("clobbered")), SymReal(c.fresh("clobbered")))

    def _check_kwargs(self, kw):
        kw = {k: v for k, v in kw.items() if k != "overwrite_x"}
        extra = {k: v for k, v in kw.items() if v is not None}
        if extra:
            from .core import Unsupported

            raise Unsupported(f"exact DFT stub: unsupported keyword arguments {sorted(extra)}")

    # -- the four transforms ------------------------------------------------------------------------------------
    def fftn(self, x, s=None, axes=None, **kw):
        from .sarray import symarray

        self._check_kwargs(dict(kw, s=s))
        self.calls.append(("fftn", tuple(self._axes(x, axes))))
        a = x
        for ax in self._axes(x, axes):
            a = self._dft_axis(a, ax, -1)
        self._clobber(x, kw)
        return symarray(a)

    def ifftn(self, x, s=None, axes=None, **kw):
        from .sarray import symarray

        self._check_kwargs(dict(kw, s=s))
        self.calls.append(("ifftn", tuple(self._axes(x, axes))))
        a = x
        for ax in self._axes(x, axes):
            a = self._dft_axis(a, ax, +1, scale=float(a.shape[ax]))
        self._clobber(x, kw)
        return symarray(a)

    def rfftn(self, x, s=None, axes=None, **kw):
        import numpy as np
        from .sarray import symarray

        self._check_kwargs(dict(kw, s=s))
        axes = self._axes(x, axes)
        self.calls.append(("rfftn", tuple(axes)))
        a = x
        for ax in axes:
            a = self._dft_axis(a, ax, -1)
        last = axes[-1]
        m = a.shape[last] // 2 + 1
        return symarray(np.take(a, range(m), axis=last))

    def irfftn(self, x, s=None, axes=None, **kw):
        import numpy as np
        from .sarray import plain, symarray

        self._check_kwargs(kw)
        axes = self._axes(x, axes)
        self.calls.append(("irfftn", tuple(axes), None if s is None else tuple(int(v) for v in s)))
        a = np.asarray(plain(x), dtype=object)
        last = axes[-1]
        m = a.shape[last]
        if s is not None:
            s = [int(v) for v in s]
            if len(s) != len(axes):
                raise ValueError("when given, axes and shape arguments have to be of the same length")
            for ax, want in zip(axes[:-1], s[:-1]):
                if a.shape[ax] != want:
                    from .core import Unsupported

                    raise Unsupported("exact DFT stub: irfftn with padding/truncation along a leading axis")
            N = s[-1]
            if N // 2 + 1 != m:
                from .core import Unsupported

                raise Unsupported("exact DFT stub: irfftn with padding/truncation along the last axis")
        else:
            N = 2 * (m - 1)
            if N < 1:
                raise ValueError(f"Invalid number of data points ({N}) specified")
        for ax in axes[:-1]:
            a = self._dft_axis(a, ax, +1, scale=float(a.shape[ax]))
        shape = list(a.shape)
        shape[last] = N
        out = np.empty(shape, dtype=object)
        a_m = np.moveaxis(a, last, 0)
        o_m = np.moveaxis(out, last, 0)
        for idx in np.ndindex(*a_m.shape[1:]):
            col = [self._parts(a_m[(j,) + idx]) for j in range(m)]
            for r in range(N):
                acc = col[0][0]
                for j in range(1, m):
                    wr, wi = self.twiddle(N, j * r, +1)
                    xr, xi = col[j]
                    term = xr * wr - xi * wi
                    if 2 * j == N:
                        acc = acc + term  # Nyquist bin counted once
                    else:
                        acc = acc + 2 * term
                o_m[(r,) + idx] = acc / float(N)
        return symarray(out)


# ----------------------------------------------------------------------------------------------------------------
# h5py stub: an in-memory tree.  Contract (h5py / HDF5 documentation): an attribute or dataset written and read back
# returns the same values *after casting to the dataset's / attribute's dtype* (integer dtypes truncate, bool
# datasets store truth values, float and complex are the identity); python strings come back as str from attributes and
# as bytes from datasets; sequences of strings come back as arrays of str (attributes) / bytes (datasets); scalars come
# back as numpy scalars; None (object dtype) cannot be stored.
class H5Error(TypeError):
    pass


def _h5_cast_elem(x, kind):
    from .scalars import Sym, SymBool, _py

    x = _py(x)
    if kind == "i":
        if isinstance(x, Sym):
            return x.__trunc__()
        return int(x)
    if kind == "b":
        if isinstance(x, Sym):
            return x if isinstance(x, SymBool) else (x != 0)
        return bool(x)
    if kind == "f":
        if isinstance(x, (Sym,)):
            return x
        if isinstance(x, complex):
            raise H5Error("cannot store complex values in a float dataset")
        return float(x)
    return x  # complex / object


def _h5_kind(dtype, data=None):
    if dtype is not None:
        try:
            k = np.dtype(dtype).kind
        except TypeError:
            k = "O"
        return {"u": "i"}.get(k, k)
    arr = np.asarray(data) if not isinstance(data, np.ndarray) else data
    if arr.dtype != object:
        return {"u": "i", "U": "S"}.get(arr.dtype.kind, arr.dtype.kind)
    from .scalars import SymBool, SymComplex, SymInt, _py

    kinds = set()
    for e in arr.flat:
        e = _py(e)
        if isinstance(e, (bool, np.bool_, SymBool)):
            kinds.add("b")
        elif isinstance(e, (int, np.integer, SymInt)):
            kinds.add("i")
        elif isinstance(e, (complex, SymComplex)):
            kinds.add("c")
        elif isinstance(e, (str, bytes)):
            kinds.add("S")
        elif e is None:
            raise H5Error("Object dtype dtype('O') has no native HDF5 equivalent")
        else:
            kinds.add("f")
    for k in ("S", "c", "f", "i", "b"):
        if k in kinds:
            return k
    return "f"


class H5Dataset:
    def __init__(self, shape, kind, np_dtype=None):
        self.shape = tuple(int(s) for s in shape)
        self.kind = kind
        self._np_dtype = np_dtype
        fill = {"i": 0, "f": 0.0, "c": 0j, "b": False, "S": b""}.get(kind, 0.0)
        self._data = np.empty(self.shape, dtype=object)
        for idx in np.ndindex(*self.shape):
            self._data[idx] = fill

    @property
    def dtype(self):
        if self._np_dtype is not None:
            return np.dtype(self._np_dtype)
        return np.dtype({"i": np.int64, "f": np.float64, "c": np.complex128, "b": np.bool_, "S": object}[self.kind])

    @property
    def ndim(self):
        return len(self.shape)

    def __len__(self):
        return self.shape[0]

    def _cast(self, value):
        from .sarray import plain, symify

        v = np.asarray(plain(symify(value)) if not isinstance(value, (str, bytes)) else value, dtype=object)
        out = np.empty(v.shape, dtype=object)
        for idx in np.ndindex(*v.shape):
            e = v[idx]
            if self.kind == "S":
                out[idx] = e.encode("utf-8") if isinstance(e, str) else e
            else:
                out[idx] = _h5_cast_elem(e, self.kind)
        return out

    def __setitem__(self, key, value):
        self._data[key] = self._cast(value)

    def _out(self, a):
        from .sarray import has_sym, symarray

        if isinstance(a, np.ndarray):
            if has_sym(a):
                return symarray(a)
            if self.kind == "S":
                return a
            return np.array(a.tolist(), dtype=self.dtype).reshape(a.shape)
        return a

    def __getitem__(self, key):
        return self._out(self._data[key])

    def __iter__(self):
        for i in range(self.shape[0]):
            yield self._out(self._data[i])

    def __array__(self, dtype=None, copy=None):
        from .sarray import has_sym

        if has_sym(self._data) or self.kind == "S":
            return np.array(self._data, dtype=object)
        return np.array(self._data.tolist(), dtype=self.dtype).reshape(self.shape)


class H5Attrs(dict):
    def __setitem__(self, key, value):
        from .scalars import Sym
        from .sarray import SymArray, has_sym, symarray

        if value is None:
            raise H5Error("Object dtype dtype('O') has no native HDF5 equivalent")
        if isinstance(value, (str, Sym)):
            v = value
        elif isinstance(value, bool):
            v = np.bool_(value)
        elif isinstance(value, int):
            v = np.int64(value)
        elif isinstance(value, float):
            v = np.float64(value)
        elif isinstance(value, (list, tuple, np.ndarray)):
            if len(value) and all(isinstance(e, str) for e in value):
                v = np.array(list(value), dtype=object)
            elif has_sym(value) or isinstance(value, SymArray):
                v = symarray(value).copy()
            else:
                arr = np.array(value)
                if arr.dtype == object:
                    raise H5Error("Object dtype dtype('O') has no native HDF5 equivalent")
                v = arr
        else:
            v = value
        dict.__setitem__(self, key, v)

    def create(self, name, data, shape=None, dtype=None):
        """h5py contract: the attribute is stored converted to `dtype` (numpy casting rules)"""
        from .core import Unsupported
        from .sarray import SymArray, has_sym

        if dtype is None:
            self[name] = data
            return
        dt = np.dtype(dtype)
        if isinstance(data, SymArray) or has_sym(data if isinstance(data, (list, tuple, np.ndarray)) else [data]):
            if dt.kind != "f" or dt.itemsize < 8:
                raise Unsupported(f"h5 attribute cast of symbolic data to {dt}")
            self[name] = data
            return
        v = np.asarray(data).astype(dt)
        self[name] = v if v.ndim else v[()]


class H5Group:
    def __init__(self):
        self.attrs = H5Attrs()
        self._items = {}

    def create_group(self, name):
        g = H5Group()
        self._items[name] = g
        return g

    def create_dataset(self, name, shape=None, dtype=None, data=None):
        if data is not None:
            from .sarray import plain, symify

            if isinstance(data, H5Dataset):
                data = data.__array__()
            arr = np.asarray(plain(symify(data)) if not (isinstance(data, list) and data and isinstance(data[0], (str, bytes))) else data, dtype=object)
            kind = _h5_kind(dtype, arr)
            ds = H5Dataset(arr.shape if shape is None else shape, kind, np_dtype=dtype if kind != "S" else None)
            ds[...] = arr
        else:
            if shape is None:
                raise TypeError("One of data, shape or dtype must be specified")
            kind = _h5_kind(dtype if dtype is not None else np.float32)
            ds = H5Dataset(shape if isinstance(shape, (tuple, list)) else (shape,), kind, np_dtype=dtype)
        self._items[name] = ds
        return ds

    def _walk(self, path):
        node = self
        for part in [p for p in path.split("/") if p]:
            node = node._items[part]
        return node

    def __getitem__(self, path):
        return self._walk(path)

    def __contains__(self, path):
        try:
            self._walk(path)
            return True
        except KeyError:
            return False

    def keys(self):
        return self._items.keys()


class FakeH5Module:
    """stands in for the h5py module inside discretisedfield.io.hdf5"""

    Group = H5Group
    Dataset = H5Dataset

    def __init__(self):
        self.files = {}

    def File(self, filename, mode="r"):
        mod = self
        key = str(filename)

        class _F(H5Group):
            def __enter__(s):
                return s

            def __exit__(s, *a):
                return False

        if mode.startswith("w"):
            f = _F()
            mod.files[key] = f
            return f
        if key not in mod.files:
            raise FileNotFoundError(key)
        return mod.files[key]


@contextlib.contextmanager
def h5_stub(hdf5_module):
    old = hdf5_module.h5py
    fake = FakeH5Module()
    hdf5_module.h5py = fake
    try:
        yield fake
    finally:
        hdf5_module.h5py = old


# ----------------------------------------------------------------------------------------------------------------
# OVF environment: in-memory binary file made of header/footer bytes and typed data chunks.  Contract: bytes written are
# the bytes read; a chunk written with format F and read with the same F returns the same values ('<d'/'>d' are the
# identity on binary64; '<f'/'>f' round to binary32, an uninterpreted function f32); a chunk read with another byte
# order or width returns unrelated values (uninterpreted function of the value); a read past the end returns fewer items.
class SymChunk:
    def __init__(self, values, fmt):
        self.values = list(values)
        self.fmt = fmt

    def __len__(self):
        return len(self.values) * (8 if self.fmt[-1] == "d" else 4)


class _TypedSeq:
    """result of np.asarray(symbolic, dtype='<d'|'<f'|...) -- only .tobytes() is used by the writer"""

    def __init__(self, values, fmt):
        self.values, self.fmt = values, fmt

    def tobytes(self):
        return SymChunk(self.values, self.fmt)


def _f32(x):
    from .scalars import SymReal, as_real_term, uf as _uf, Sym

    if isinstance(x, Sym):
        return SymReal(_uf("f32", as_real_term(x)))
    return float(np.float32(x))


class OvfFile:
    def __init__(self, store, name, mode):
        self.store, self.name, self.mode = store, name, mode
        if "w" in mode:
            store[name] = []
        elif name not in store:
            raise FileNotFoundError(name)
        self.pos = 0  # item index in the store list (read mode)
        self._lines = None

    def __enter__(self):
        return self

    def __exit__(self, *a):
        return False

    def write(self, data):
        self.store[self.name].append(data)

    # reading: header bytes are split into lines; chunks are consumed by read()/fromfile
    def _items(self):
        return self.store[self.name]

    def __iter__(self):
        return self

    def __next__(self):
        items = self._items()
        while self.pos < len(items):
            it = items[self.pos]
            if isinstance(it, (bytes, bytearray)):
                if self._lines is None:
                    self._lines = it.splitlines(keepends=True)
                if self._lines:
                    return self._lines.pop(0)
                self._lines = None
                self.pos += 1
                continue
            raise StopIteration
        raise StopIteration

    def _pending_bytes(self):
        """bytes left over from a partly iterated header item"""
        if self._lines:
            rest = b"".join(self._lines)
            self._lines = None
            self._items()[self.pos] = rest
            return
        if self._lines is not None:
            self._lines = None
            self.pos += 1

    def read(self, nbytes):
        self._pending_bytes()
        items = self._items()
        if self.pos >= len(items):
            return b""
        it = items[self.pos]
        if isinstance(it, (bytes, bytearray)):
            out, rest = it[:nbytes], it[nbytes:]
            if rest:
                items[self.pos] = rest
            else:
                self.pos += 1
            return bytes(out)
        raise TypeError("read(): next item is a typed chunk")

    def take(self, count, fmt):
        """count items read with format fmt from the following chunks / bytes"""
        import struct as _struct

        self._pending_bytes()
        items = self._items()
        out = []
        width = 8 if fmt[-1] == "d" else 4
        while len(out) < count and self.pos < len(items):
            it = items[self.pos]
            if isinstance(it, SymChunk):
                need = count - len(out)
                vals = it.values[:need]
                if it.fmt == fmt:
                    out.extend(vals)
                elif it.fmt[-1] == fmt[-1]:
                    from .scalars import SymReal, Sym, as_real_term, uf as _uf

                    out.extend(SymReal(_uf("bswap", as_real_term(v))) if isinstance(v, Sym) else float("nan") for v in vals)
                else:
                    from .core import Unsupported

                    raise Unsupported("OVF stub: chunk read with a different item width")
                if need < len(it.values):
                    items[self.pos] = SymChunk(it.values[need:], it.fmt)
                else:
                    self.pos += 1
            elif isinstance(it, (bytes, bytearray)):
                need = (count - len(out)) * width
                raw, rest = it[:need], it[need:]
                usable = len(raw) - len(raw) % width
                out.extend(x[0] for x in _struct.iter_unpack(fmt, raw[:usable]))
                if rest:
                    items[self.pos] = rest
                else:
                    self.pos += 1
                if usable < need:
                    if rest:
                        continue
            else:
                self.pos += 1
        return out


class OvfNumpy:
    """numpy proxy for discretisedfield.io.ovf: typed conversion + tobytes and fromfile on the in-memory file"""

    def __init__(self, base):
        self._base = base

    def __getattr__(self, name):
        return getattr(self._base, name)

    def asarray(self, a, dtype=None, **kw):
        from .sarray import has_sym, plain, symify

        if isinstance(dtype, str) and dtype in ("<d", ">d", "<f", ">f") and (has_sym(a) or type(a).__name__ == "SymArray" or type(a).__name__ == "flatiter"):
            vals = list(np.asarray(plain(symify(list(a) if not isinstance(a, np.ndarray) else a)), dtype=object).ravel())
            if has_sym(vals):
                if dtype[-1] == "f":
                    vals = [_f32(v) for v in vals]
                return _TypedSeq(vals, dtype)
        return self._base.asarray(a, dtype=dtype, **kw)

    def fromfile(self, f, count=-1, dtype=float, **kw):
        from .sarray import symarray

        if isinstance(f, OvfFile):
            vals = f.take(int(count), dtype)
            return symarray(vals) if len(vals) else np.zeros(0)
        return np.fromfile(f, count=count, dtype=dtype, **kw)


@contextlib.contextmanager
def ovf_stub(ovf_module):
    store = {}
    old_np = ovf_module.np
    had_open = "open" in ovf_module.__dict__
    old_open = ovf_module.__dict__.get("open")
    ovf_module.np = OvfNumpy(old_np)
    ovf_module.open = lambda name, mode="r", *a, **k: OvfFile(store, str(name), mode)
    try:
        yield store
    finally:
        ovf_module.np = old_np
        if had_open:
            ovf_module.open = old_open
        else:
            del ovf_module.open


# ----------------------------------------------------------------------------------------------------------------
# VTK stub: a recorder grid.  Contract (VTK documentation of vtkRectilinearGrid / structured data): cell id =
# i + nx*(j + ny*k) with cell (i,j,k) spanning [X[i],X[i+1]] x [Y[j],Y[j+1]] x [Z[k],Z[k+1]]; cell-data arrays are
# indexed by cell id; a writer followed by the matching reader returns the same grid (binary and XML exactly; the ASCII
# form only to ten significant digits -- checked natively).
class VtkArray:
    def __init__(self, data):
        from .sarray import plain, symify

        self.data = np.asarray(plain(symify(data)), dtype=object)
        self.name = None

    def SetName(self, name):
        self.name = str(name)

    def GetName(self):
        return self.name

    def GetNumberOfComponents(self):
        return 1 if self.data.ndim == 1 else int(self.data.shape[1])

    def GetNumberOfTuples(self):
        return int(self.data.shape[0])


class VtkCellData:
    def __init__(self):
        self.arrays = []
        self.active = {}

    def AddArray(self, a):
        self.arrays.append(a)

    def GetNumberOfArrays(self):
        return len(self.arrays)

    def GetArrayName(self, i):
        return self.arrays[i].name

    def GetArray(self, i):
        if isinstance(i, str):
            for a in self.arrays:
                if a.name == i:
                    return a
            return None
        return self.arrays[i]

    def SetActiveVectors(self, name):
        self.active["vectors"] = name

    def SetActiveScalars(self, name):
        self.active["scalars"] = name


class VtkGrid:
    def __init__(self):
        self.dims = None
        self.coords = [None, None, None]
        self.cell_data = VtkCellData()

    def SetDimensions(self, *d):
        self.dims = tuple(int(x) for x in d)

    def GetDimensions(self):
        return self.dims

    def SetXCoordinates(self, a):
        self.coords[0] = a

    def SetYCoordinates(self, a):
        self.coords[1] = a

    def SetZCoordinates(self, a):
        self.coords[2] = a

    def GetXCoordinates(self):
        return self.coords[0]

    def GetYCoordinates(self):
        return self.coords[1]

    def GetZCoordinates(self):
        return self.coords[2]

    def GetCellData(self):
        return self.cell_data

    def GetBounds(self):
        out = []
        for a in self.coords:
            out += [a.data[0], a.data[-1]]
        return tuple(out)

    def GetNumberOfCells(self):
        n = 1
        for d in self.dims:
            n *= max(d - 1, 1)
        return n


class _VtkNS:
    """numpy_support"""

    @staticmethod
    def numpy_to_vtk(a, *args, **kw):
        return VtkArray(a)

    @staticmethod
    def vtk_to_numpy(a):
        from .sarray import has_sym, symarray

        d = a.data
        if has_sym(d):
            return symarray(d)
        return np.array(d.tolist())


class _VtkIO:
    def __init__(self, fs, kind, xml):
        self.fs, self.kind, self.xml = fs, kind, xml
        self.name = None
        self.grid = None
        self.filetype = None

    def SetFileTypeToASCII(self):
        self.filetype = "ascii"

    def SetFileTypeToBinary(self):
        self.filetype = "binary"

    def SetFileName(self, n):
        self.name = str(n)

    def SetInputData(self, g):
        self.grid = g

    def Write(self):
        self.fs.files[self.name] = dict(grid=self.grid, xml=self.xml, filetype=self.filetype)
        return 1

    def ReadAllVectorsOn(self):
        pass

    def ReadAllScalarsOn(self):
        pass

    def Update(self):
        rec = self.fs.files[self.name]
        if rec["xml"] != self.xml:
            raise RuntimeError("VTK stub: reader does not match the writer's format")
        self.grid = rec["grid"]

    def GetOutput(self):
        return self.grid


class _VtkPathModule:
    def __init__(self, fs, real_pathlib):
        outer_fs = fs

        class Path(real_pathlib.PurePosixPath):
            def open(self, mode="r", encoding=None):
                key = str(self)
                if key not in outer_fs.files:
                    raise FileNotFoundError(key)
                first = b"<?xml version=\"1.0\"?>\n" if outer_fs.files[key]["xml"] else b"# vtk DataFile Version 5.1\n"

                class H:
                    def __enter__(s):
                        return s

                    def __exit__(s, *a):
                        return False

                    def readline(s):
                        return first

                return H()

        self.Path = Path


@contextlib.contextmanager
def vtk_stub(field_module, vtk_module):
    import pathlib as real_pathlib

    fs = MemFS()
    saved = dict(f_grid=field_module.vtkRectilinearGrid, f_vns=field_module.vns, v_vns=vtk_module.vns, v_r=vtk_module.vtkRectilinearGridReader,
                 v_w=vtk_module.vtkRectilinearGridWriter, v_xr=vtk_module.vtkXMLRectilinearGridReader, v_xw=vtk_module.vtkXMLRectilinearGridWriter, v_p=vtk_module.pathlib)
    field_module.vtkRectilinearGrid = VtkGrid
    field_module.vns = _VtkNS
    vtk_module.vns = _VtkNS
    vtk_module.vtkRectilinearGridReader = lambda: _VtkIO(fs, "reader", False)
    vtk_module.vtkRectilinearGridWriter = lambda: _VtkIO(fs, "writer", False)
    vtk_module.vtkXMLRectilinearGridReader = lambda: _VtkIO(fs, "reader", True)
    vtk_module.vtkXMLRectilinearGridWriter = lambda: _VtkIO(fs, "writer", True)
    vtk_module.pathlib = _VtkPathModule(fs, real_pathlib)
    try:
        yield fs
    finally:
        field_module.vtkRectilinearGrid = saved["f_grid"]
        field_module.vns = saved["f_vns"]
        vtk_module.vns = saved["v_vns"]
        vtk_module.vtkRectilinearGridReader = saved["v_r"]
        vtk_module.vtkRectilinearGridWriter = saved["v_w"]
        vtk_module.vtkXMLRectilinearGridReader = saved["v_xr"]
        vtk_module.vtkXMLRectilinearGridWriter = saved["v_xw"]
        vtk_module.pathlib = saved["v_p"]


# ----------------------------------------------------------------------------------------------------------------
# scipy.spatial.transform.Rotation / scipy.interpolate.RegularGridInterpolator stubs for field_rotator.py.
# Contract (SciPy documentation): from_matrix(M) has matrix M; a*b is the matrix product (b applied first); inv() is the
# transpose (rotations); apply(v) = M v for every row of v.  RegularGridInterpolator(points, values, fill_value,
# bounds_error=False)(x): multilinear interpolation of `values` on the rectilinear grid `points` for x inside the grid,
# fill_value outside.  Rotations given in other parametrisations (quaternion, rotation vector, Euler angles, align_vectors)
# are converted by the real SciPy (concrete arguments only).
class RotStub:
    def __init__(self, matrix):
        from .sarray import plain, symify

        self.M = np.asarray(plain(symify(matrix)), dtype=object).reshape(3, 3)

    @classmethod
    def from_matrix(cls, m):
        return cls(m)

    @classmethod
    def _via_scipy(cls, name, *a, **k):
        from scipy.spatial.transform import Rotation as R

        return cls(np.asarray(getattr(R, name)(*a, **k).as_matrix(), dtype=float))

    @classmethod
    def from_quat(cls, *a, **k):
        return cls._via_scipy("from_quat", *a, **k)

    @classmethod
    def from_rotvec(cls, *a, **k):
        return cls._via_scipy("from_rotvec", *a, **k)

    @classmethod
    def from_mrp(cls, *a, **k):
        return cls._via_scipy("from_mrp", *a, **k)

    @classmethod
    def from_euler(cls, *a, **k):
        return cls._via_scipy("from_euler", *a, **k)

    @classmethod
    def align_vectors(cls, a, b, *args, **k):
        from scipy.spatial.transform import Rotation as R

        r = R.align_vectors(a, b, *args, **k)
        return (cls(np.asarray(r[0].as_matrix(), dtype=float)),) + tuple(r[1:])

    def as_matrix(self):
        from .sarray import wrap

        return wrap(self.M.copy())

    def __mul__(self, other):
        out = np.empty((3, 3), dtype=object)
        for i in range(3):
            for j in range(3):
                acc = 0.0
                for k in range(3):
                    acc = acc + self.M[i, k] * other.M[k, j]
                out[i, j] = acc
        return RotStub(out)

    def inv(self):
        return RotStub(self.M.T.copy())

    def apply(self, v):
        from .sarray import plain, symify, wrap

        a = np.asarray(plain(symify(v)), dtype=object)
        single = a.ndim == 1
        rows = a.reshape(-1, 3)
        out = np.empty(rows.shape, dtype=object)
        for r in range(rows.shape[0]):
            for i in range(3):
                acc = 0.0
                for k in range(3):
                    acc = acc + self.M[i, k] * rows[r, k]
                out[r, i] = acc
        out = out.reshape(3) if single else out
        return wrap(out)


class RGIStub:
    def __init__(self, points, values, method="linear", bounds_error=True, fill_value=np.nan):
        from .sarray import plain, symify

        if method != "linear":
            from .core import Unsupported

            raise Unsupported("RegularGridInterpolator stub: linear only")
        self.grid = [np.asarray(p, dtype=float) for p in points]
        self.values = np.asarray(plain(symify(values)), dtype=object)
        self.bounds_error = bounds_error
        self.fill_value = fill_value

    def __call__(self, xi):
        from .sarray import has_sym, wrap

        pts = np.asarray(xi)
        if pts.dtype == object:
            if has_sym(pts):
                from .core import Unsupported

                raise Unsupported("RegularGridInterpolator stub: symbolic sample positions")
            pts = pts.astype(float)
        pts = pts.reshape(-1, len(self.grid))
        out = np.empty(pts.shape[0], dtype=object)
        for r, p in enumerate(pts):
            inside = all(g[0] <= p[a] <= g[-1] for a, g in enumerate(self.grid))
            if not inside:
                if self.bounds_error:
                    raise ValueError("One of the requested xi is out of bounds")
                out[r] = self.fill_value
                continue
            idx, w = [], []
            for a, g in enumerate(self.grid):
                i = int(np.searchsorted(g, p[a], side="right") - 1)
                i = min(max(i, 0), len(g) - 2)
                t = (p[a] - g[i]) / (g[i + 1] - g[i])
                idx.append(i)
                w.append(float(t))
            acc = 0.0
            for corner in np.ndindex(*([2] * len(self.grid))):
                wt = 1.0
                for a, c in enumerate(corner):
                    wt *= w[a] if c else (1.0 - w[a])
                if wt != 0.0:
                    acc = acc + wt * self.values[tuple(i + c for i, c in zip(idx, corner))]
            out[r] = acc
        return wrap(out)


class _NDArrayMeta(type):
    def __instancecheck__(cls, inst):
        return isinstance(inst, np.ndarray)

    def __call__(cls, *a, **k):
        # np.ndarray(shape=...) allocates an uninitialised float array; the caller then stores symbolic values in it
        shape = k.get("shape", a[0] if a else None)
        out = np.empty(tuple(int(x) for x in shape), dtype=object)
        from .sarray import SymArray

        return out.view(SymArray)


class _NDArrayProxy(metaclass=_NDArrayMeta):
    pass


class RotatorNumpy:
    def __init__(self, base):
        self._base = base
        self.ndarray = _NDArrayProxy

    def __getattr__(self, name):
        return getattr(self._base, name)


@contextlib.contextmanager
def rotator_stub(fr_module):
    old_r, old_i, old_np = fr_module.Rotation, fr_module.RegularGridInterpolator, fr_module.np
    fr_module.Rotation = RotStub
    fr_module.RegularGridInterpolator = RGIStub
    fr_module.np = RotatorNumpy(old_np)
    try:
        yield
    finally:
        fr_module.Rotation, fr_module.RegularGridInterpolator, fr_module.np = old_r, old_i, old_np
