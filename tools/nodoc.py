#!/usr/bin/env python3
"""print a python source file without docstrings / blank lines (reading aid)"""
import ast, sys
fn = sys.argv[1]
lo = int(sys.argv[2]) if len(sys.argv) > 2 else 1
hi = int(sys.argv[3]) if len(sys.argv) > 3 else 10**9
src = open(fn).read()
tree = ast.parse(src)
lines = src.split("\n")
drop = set()
for node in ast.walk(tree):
    if isinstance(node, (ast.FunctionDef, ast.ClassDef, ast.Module)):
        b = node.body
        if b and isinstance(b[0], ast.Expr) and isinstance(getattr(b[0], "value", None), ast.Constant) and isinstance(b[0].value.value, str):
            for i in range(b[0].lineno, b[0].end_lineno + 1):
                drop.add(i)
for i, l in enumerate(lines, 1):
    if lo <= i <= hi and i not in drop and l.strip():
        print(f"{i}:{l}")
