#!/usr/bin/env python3
"""Confirm sub-agent mutants in a scratch worktree (outside /repo and /verif) and keep the confirmed ones under
/verif/seeded/<prop>-<k>/ : demo fails with the change and passes without it; the existing test-suite gives the same
result as on the clean pinned tree.  Usage: confirm_mutants.py [PROP ...]   (runs sequentially; meant for the background)"""
import glob, json, os, re, shutil, subprocess, sys

WT = "/tmp/wt_confirm"
SEED = "/verif/tools/seedplug"
OUT = "/verif/seeded"
PY = "/venv/bin/python"


def sh(cmd, **kw):
    return subprocess.run(cmd, shell=True, capture_output=True, text=True, **kw)


def suite():
    env = dict(os.environ, PYTHONPATH=f"{SEED}:{WT}", PATH="/venv/bin:" + os.environ["PATH"])
    r = sh(f"cd {WT} && {PY} -m pytest -q -p no:cacheprovider -n 10 --timeout=900 discretisedfield 2>&1 | tail -40", env=env)
    tail = r.stdout
    m = re.search(r"(\d+) failed", tail)
    p = re.search(r"(\d+) passed", tail)
    failed = sorted(set(re.findall(r"^FAILED (\S+)", tail, re.M)))
    return dict(passed=int(p.group(1)) if p else -1, failed=int(m.group(1)) if m else 0, failed_ids=failed, tail=tail[-600:])


def demo(path):
    env = dict(os.environ, PYTHONPATH=WT)
    r = sh(f"cd {WT} && timeout 600 {PY} {path}", env=env)
    return r.returncode, (r.stdout + r.stderr)[-400:]


def main():
    props = sys.argv[1:]
    if not os.path.isdir(WT):
        sh(f"git -C /repo worktree add --detach {WT} 67dd33a6")
    sh(f"git -C {WT} checkout -q --detach 67dd33a6 && git -C {WT} checkout -- .")
    base_file = f"{OUT}/_baseline.json"
    os.makedirs(OUT, exist_ok=True)
    if os.path.exists(base_file):
        base = json.load(open(base_file))
    else:
        base = suite()
        json.dump(base, open(base_file, "w"), indent=1)
    print("baseline", base["passed"], base["failed"], base["failed_ids"], flush=True)
    for d in sorted(glob.glob("/tmp/agent_out/C*/m*")):
        prop = d.split("/")[3]
        k = os.path.basename(d)
        if props and prop not in props:
            continue
        dest = f"{OUT}/{prop}-{k}"
        if os.path.exists(f"{dest}/meta.json"):
            continue
        patch, dm = f"{d}/patch.diff", f"{d}/demo.py"
        if not (os.path.exists(patch) and os.path.exists(dm)):
            continue
        sh(f"git -C {WT} checkout -- .")
        rc_clean, out_clean = demo(dm)
        ap = sh(f"git -C {WT} apply {patch}")
        if ap.returncode != 0:
            print(prop, k, "patch does not apply", ap.stderr[:200], flush=True)
            continue
        rc_pat, out_pat = demo(dm)
        st = suite()
        sh(f"git -C {WT} checkout -- .")
        ok = rc_clean == 0 and rc_pat != 0 and st["passed"] == base["passed"] and st["failed_ids"] == base["failed_ids"]
        agent_meta = {}
        try:
            agent_meta = json.load(open(f"{d}/meta.json"))
        except Exception:
            pass
        meta = dict(property=prop, mutant=k, confirmed=ok, breaks=agent_meta.get("summary"), needs=agent_meta.get("needs"),
                    files=agent_meta.get("files"),
                    ran=dict(demo_clean_exit=rc_clean, demo_patched_exit=rc_pat, demo_patched_tail=out_pat[-300:],
                             suite_patched=dict(passed=st["passed"], failed=st["failed"], failed_ids=st["failed_ids"]),
                             suite_clean=dict(passed=base["passed"], failed=base["failed"], failed_ids=base["failed_ids"]),
                             how=f"scratch worktree {WT} at pinned commit 67dd33a6; suite: pytest -n 10 with a seeding plugin "
                                 "(random parametrize ids otherwise differ between xdist workers) and /venv/bin on PATH"))
        print(prop, k, "CONFIRMED" if ok else "REJECTED", rc_clean, rc_pat, st["passed"], st["failed"], st["failed_ids"], flush=True)
        if ok:
            os.makedirs(dest, exist_ok=True)
            shutil.copy(patch, f"{dest}/patch.diff")
            shutil.copy(dm, f"{dest}/demo.py")
            json.dump(meta, open(f"{dest}/meta.json", "w"), indent=1)
        else:
            os.makedirs(f"{OUT}/_rejected", exist_ok=True)
            json.dump(meta, open(f"{OUT}/_rejected/{prop}-{k}.json", "w"), indent=1)


main()
