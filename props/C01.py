"""C01 -- mesh lattice, index<->coordinate maps (DESIGN 2/C01)."""
from __future__ import annotations

import itertools
from fractions import Fraction

import numpy as np

from symx import lib
from symx.sarray import has_sym

from .C13 import h_history as h_lattice_after_transformations  # noqa: F401  (the lattice maps after in-place / copying steps, incl. first/last centre)
from .common import DIMSETS, region_inputs

META = dict(
    bounds=dict(
        quick=dict(also="cell counts given as a caller-owned int64 array that is modified afterwards; native binary64 sweeps of the vertex / centre lists (offsets up to 1e6, up to 4000 cells)",
                   ndim="1..3", n_symbolic="1..64 per axis (index arithmetic, cell-size constructor)",
                   n_enumerated="each axis in {1,2,3} (lattice enumeration)", dims="default and renamed"),
        thorough=dict(ndim="1..4", n_symbolic="1..64", n_enumerated="each axis in {1..5} (<=3 axes), {1,2,3} (4 axes)",
                      dims="default and renamed", fp64="binary64 lemmas by cvc5 on the executed code (1-d, n<=5, every i): index->point->index round trip, pmax maps to the last cell; "
                      "precondition: finite, pmin<pmax, edge in [2^-40,2^40], |corner| <= 2^20*edge"),
    ),
    stubs=["np.linspace modelled by its documented formula (end point exactly `stop`)"],
    assumptions=[
        "REAL theory: floats are exact reals; binary64 rounding only in the FP64 lemmas of the thorough tier",
        "tolerance band 2*tf*(min_edge+|p|) at region faces is left unconstrained (statement: up to the region's tolerance)",
    ],
    outside=["n > 64", "ndim > 4", "NaN/inf coordinates"],
)


def _mesh_sym_n(sx, cfg):
    df = lib.load()
    nd = cfg["ndim"]
    pmin, e, p1, p2 = region_inputs(sx, nd)
    dims = DIMSETS[cfg.get("dims", "default")][nd]
    region = df.Region(p1=p1, p2=p2, dims=dims)
    n = sx.ints("n", nd, lo=1, hi=64)
    mesh = df.Mesh(region=region, n=tuple(n) if nd > 1 or cfg.get("tuple1") else n[0])
    return df, nd, pmin, e, n, mesh


def h_index2point(sx, cfg):
    """index -> centre; centre -> index; out-of-range indices rejected"""
    df, nd, pmin, e, n, mesh = _mesh_sym_n(sx, cfg)
    idx = sx.ints("i", nd)
    inrange = sx.And(*[sx.And(idx[a] >= 0, idx[a] < n[a]) for a in range(nd)])
    try:
        pt = mesh.index2point(tuple(idx))
    except IndexError:
        sx.check("reject-only-out-of-range", sx.Not(inrange))
        return
    sx.check("accept-only-in-range", inrange)
    centre = [pmin[a] + (idx[a] + 0.5) * e[a] / n[a] for a in range(nd)]
    sx.observe("centre", pt)
    for a in range(nd):
        sx.check(f"centre[{a}]", sx.eq(pt[a], centre[a]))
    back = mesh.point2index(pt)
    sx.check("roundtrip-len", len(back) == nd)
    for a in range(nd):
        sx.check(f"roundtrip[{a}]", sx.eq(back[a], idx[a]))


def h_point2index(sx, cfg):
    """any point of the region -> in-range index of the containing cell; outside rejected"""
    df, nd, pmin, e, n, mesh = _mesh_sym_n(sx, cfg)
    p = sx.reals("p", nd)
    tf = 1e-12
    mine = e[0]
    for a in range(1, nd):
        mine = sx.min(mine, e[a])
    inside = sx.And(*[sx.And(p[a] >= pmin[a], p[a] <= pmin[a] + e[a]) for a in range(nd)])
    try:
        j = mesh.point2index(tuple(p) if nd > 1 else p[0])
    except ValueError:
        sx.check("reject-only-outside", sx.Not(inside))
        return
    sx.observe("index", list(j))
    for a in range(nd):
        band = 2 * tf * (mine + abs(p[a]))
        c = e[a] / n[a]
        lo = pmin[a] + j[a] * c
        hi = lo + c
        sx.check(f"accept-within-band[{a}]", sx.And(p[a] >= pmin[a] - band, p[a] <= pmin[a] + e[a] + band))
        sx.check(f"in-range[{a}]", sx.And(j[a] >= 0, j[a] < n[a]))
        sx.check(f"lower-face-inclusive[{a}]", lo - band <= p[a])
        sx.check(f"upper-face[{a}]", sx.Or(p[a] < hi, sx.And(sx.eq(j[a], n[a] - 1), p[a] <= pmin[a] + e[a] + band)))
    # the returned index converts back to a centre whose cell contains p (consistency of both maps)
    pt = mesh.index2point(j)
    for a in range(nd):
        c = e[a] / n[a]
        band = 2 * tf * (mine + abs(p[a]))
        sx.check(f"centre-within-half-cell[{a}]", sx.And(pt[a] - c / 2 - band <= p[a], p[a] <= pt[a] + c / 2 + band))


def h_cell_ctor(sx, cfg):
    """Mesh(region, cell=c) exists exactly when every edge is a whole number of cells (0.1 % tolerance)

    cell sizes are concrete per configuration (several scales, anisotropic, non-dyadic); position, cell count k and
    the commensurability defect d (0 <= d < c) are symbolic: edge = k*c + d."""
    df = lib.load()
    c = [Fraction(x) for x in cfg["cell"]]
    nd = len(c)
    pmin = sx.reals("pmin", nd)
    k = sx.ints("k", nd, lo=0, hi=64)
    d = sx.reals("d", nd)
    for a in range(nd):
        sx.assume(sx.And(d[a] >= 0, d[a] < float(c[a])))
    e = [k[a] * float(c[a]) + d[a] for a in range(nd)]
    for a in range(nd):
        sx.assume(e[a] > 0)
    try:
        region = df.Region(p1=pmin, p2=[pmin[a] + e[a] for a in range(nd)])
    except ValueError:
        if sx.sym:
            raise
        # native replay only: a positive edge far from the origin can be absorbed by binary64 (pmin + e == pmin); the
        # precondition e > 0 is then not representable and the sample is not comparable
        from symx.core import PathAbort

        raise PathAbort("edge absorbed by binary64 rounding")
    cf = [float(x) for x in c]
    tol = 1e-3 * min(cf)
    up = [d[a] >= cf[a] - tol for a in range(nd)]
    div = [sx.Or(d[a] <= tol, up[a]) for a in range(nd)]
    try:
        mesh = df.Mesh(region=region, cell=tuple(cf) if nd > 1 else cf[0])
    except ValueError:
        # rejected: some edge not divisible, or less than one cell
        sx.check("reject-has-reason", sx.Or(*[sx.Or(sx.Not(div[a]), sx.eq(k[a], 0)) for a in range(nd)]))
        return
    sx.observe("n", list(mesh.n))
    for a in range(nd):
        sx.check(f"accept-divisible[{a}]", div[a])
        sx.check(f"n>=1[{a}]", mesh.n[a] >= 1)
        sx.check(f"n-value[{a}]", sx.eq(mesh.n[a], sx.ite(up[a], k[a] + 1, k[a])))
    for a in range(nd):
        sx.check(f"cell*n=edge[{a}]", sx.eq(mesh.cell[a] * mesh.n[a], e[a]))


def h_cell_ctor_sign(sx, cfg):
    """non-positive cell sizes are refused (symbolic sign)"""
    df = lib.load()
    nd = cfg["ndim"]
    pmin, e, p1, p2 = region_inputs(sx, nd)
    region = df.Region(p1=p1, p2=p2)
    c = sx.reals("c", nd)
    sx.assume(sx.Or(*[c[a] <= 0 for a in range(nd)]))
    try:
        df.Mesh(region=region, cell=tuple(c) if nd > 1 else c[0])
    except ValueError:
        sx.check("refused-nonpositive", True)
    else:
        sx.check("refused-nonpositive", False)


def h_cell_ctor_types(sx, cfg):
    """malformed cell arguments are refused (concrete structure, symbolic geometry)"""
    df = lib.load()
    nd = cfg["ndim"]
    pmin, e, p1, p2 = region_inputs(sx, nd)
    region = df.Region(p1=p1, p2=p2)
    bad = {
        "wrong-length": ([e[0] / 2] * (nd + 1), ValueError),
        "string": ("abc", TypeError),
        "non-number-element": ([e[0] / 2] * (nd - 1) + ["a"], TypeError),
        "both-n-and-cell": None,
    }
    for name, spec in bad.items():
        try:
            if spec is None:
                df.Mesh(region=region, cell=[e[a] / 2 for a in range(nd)], n=[2] * nd)
            else:
                df.Mesh(region=region, cell=spec[0])
        except (ValueError, TypeError) as ex:
            sx.check(f"refused-{name}", spec is None or isinstance(ex, spec[1]))
        else:
            sx.check(f"refused-{name}", False)
    for name, nbad, exc in (("zero-n", [0] * nd, ValueError), ("float-n", [2.0] * nd, TypeError), ("neg-n", [-1] * nd, ValueError)):
        try:
            df.Mesh(region=region, n=nbad)
        except (ValueError, TypeError) as ex:
            sx.check(f"refused-{name}", isinstance(ex, exc))
        else:
            sx.check(f"refused-{name}", False)
    mesh = df.Mesh(region=region, n=[2] * nd)
    for name, idx in (("long-index", (0,) * (nd + 1)), ("float-index", None)):
        try:
            mesh.index2point(idx if idx is not None else (0.5,) * nd)
        except (IndexError, TypeError):
            sx.check(f"refused-{name}", True)
        else:
            sx.check(f"refused-{name}", False)
    try:
        mesh.point2index((pmin[0],) * (nd + 1))
    except ValueError:
        sx.check("refused-long-point", True)
    else:
        sx.check("refused-long-point", False)


def h_lattice(sx, cfg):
    """len, iteration order, per-axis centres/vertices and the coordinate field describe one lattice"""
    df = lib.load()
    n = tuple(cfg["n"])
    nd = len(n)
    pmin, e, p1, p2 = region_inputs(sx, nd)
    dims = DIMSETS[cfg.get("dims", "default")][nd]
    if cfg.get("n_as_array"):
        # the caller's own integer array: the mesh keeps its lattice whatever the caller does with that array afterwards
        narr = np.array(n, dtype=np.int64)
        mesh = df.Mesh(region=df.Region(p1=p1, p2=p2, dims=dims), n=narr if nd > 1 else narr)
        narr *= 2
        narr += 1
    else:
        mesh = df.Mesh(region=df.Region(p1=p1, p2=p2, dims=dims), n=n)
    sx.check("n-as-requested", tuple(int(x) for x in mesh.n) == n)
    total = 1
    for v in n:
        total *= v
    sx.check("len", len(mesh) == total)
    c = [e[a] / n[a] for a in range(nd)]
    for a in range(nd):
        sx.check(f"cell[{a}]", sx.eq(mesh.cell[a], c[a]))

    def centre(idx):
        return [pmin[a] + (idx[a] + 0.5) * c[a] for a in range(nd)]

    # first dimension fastest
    expected = [tuple(reversed(t)) for t in itertools.product(*[range(v) for v in reversed(n)])]
    got = list(mesh.indices)
    sx.check("indices-order", got == expected)
    pts = list(mesh)
    sx.check("iter-count", len(pts) == total)
    for t, (idx, pt) in enumerate(zip(expected, pts)):
        sx.check(f"iter-point[{t}]", sx.eq(list(pt), centre(idx)))
    cells = mesh.cells
    verts = mesh.vertices
    sx.check("cells-fields", tuple(cells._fields) == tuple(dims) and tuple(verts._fields) == tuple(dims))
    for a in range(nd):
        ca = cells[a]
        va = verts[a]
        sx.check(f"cells-count[{a}]", len(ca) == n[a] and len(va) == n[a] + 1)
        sx.observe(f"cells{a}", ca)
        for i in range(n[a]):
            sx.check(f"cells[{a}][{i}]", sx.eq(ca[i], pmin[a] + (i + 0.5) * c[a]))
        for i in range(n[a] + 1):
            sx.check(f"vertices[{a}][{i}]", sx.eq(va[i], pmin[a] + i * c[a]))
        sx.check(f"vertices-last[{a}]", sx.eq(va[n[a]], pmin[a] + e[a]))
        # tiling: consecutive vertices bound exactly one centre, no gaps / overlaps
        for i in range(n[a]):
            sx.check(f"tiling[{a}][{i}]", sx.And(va[i] < ca[i], ca[i] < va[i + 1], sx.eq(va[i + 1] - va[i], c[a])))
    cf = mesh.coordinate_field()
    sx.check("coordfield-shape", tuple(cf.array.shape) == (*n, nd))
    sx.check("coordfield-labels", list(cf.vdims) == list(dims) and cf.vdim_mapping == dict(zip(dims, dims)))
    sx.check("coordfield-mesh", cf.mesh is mesh or cf.mesh == mesh)
    for idx in expected:
        sx.check(f"coordfield[{idx}]", sx.eq(list(cf.array[idx]), centre(idx)))


def _fp_pre(A, B):
    """finite, ordered, edge in [2^-40, 2^40], corners within 2^20 edges of the origin (no overflow / underflow of the intermediate results)"""
    import z3

    from symx import fp64

    e = z3.fpSub(fp64.RNE, B, A)
    two = lambda k: z3.FPVal(2.0 ** k, fp64.F64)  # noqa: E731
    return [z3.Not(z3.fpIsNaN(A)), z3.Not(z3.fpIsInf(A)), z3.Not(z3.fpIsNaN(B)), z3.Not(z3.fpIsInf(B)), z3.fpLT(A, B), z3.fpGEQ(e, two(-40)), z3.fpLEQ(e, two(40)),
            z3.fpLEQ(z3.fpAbs(A), z3.fpMul(fp64.RNE, two(20), e)), z3.fpLEQ(z3.fpAbs(B), z3.fpMul(fp64.RNE, two(20), e))]


def h_fp_roundtrip(sx, cfg):
    """binary64 lemma (cvc5): point2index(index2point(i)) == i for EVERY pair of binary64 corners satisfying the precondition
    (concrete n, i per task).  The real Region / Mesh code is executed on concolic binary64 proxies; see symx/fp64.py"""
    import json
    import os

    import z3

    from symx import fp64
    from symx.core import SolverUnknown

    df = lib.load()
    n, i = cfg["n"], cfg["i"]
    what = cfg.get("what", "roundtrip")
    cex_file = os.path.join(os.path.dirname(os.path.dirname(os.path.abspath(__file__))), "replays", "C01", f"fp-{what}-{n}-{i}.json")

    def native(a, b):
        mesh = df.Mesh(p1=a, p2=b, n=n)
        if what == "roundtrip":
            return mesh.point2index(mesh.index2point((i,)))[0] == i
        return mesh.point2index(float(np.asarray(mesh.region.pmax)[0]))[0] == n - 1

    if not sx.sym:
        ok = native(0.1, 1.3)
        if os.path.exists(cex_file):
            c = json.load(open(cex_file))
            try:
                ok = ok and native(c["pmin"], c["pmax"])
            except Exception:  # noqa: BLE001
                ok = False
        sx.check("binary64-lemma", ok)
        return

    def run():
        a, b = fp64.fp_input("pmin", 0.1), fp64.fp_input("pmax", 1.3)
        mesh = df.Mesh(p1=a, p2=b, n=n)
        if what == "roundtrip":
            j = mesh.point2index(mesh.index2point((i,)))
            want = i
        else:
            j = mesh.point2index(mesh.region.pmax[0])
            want = n - 1
        return a, b, j[0], want

    (a, b, j, want), pc = fp64.run_concolic(run)
    if not isinstance(j, fp64.SymFP):
        sx.check("binary64-lemma", int(j) == want)
        return
    pre = _fp_pre(a.t, b.t)
    post = z3.fpEQ(j.t, z3.FPVal(float(want), fp64.F64))
    import concurrent.futures as cf

    with cf.ThreadPoolExecutor(2) as ex:
        fa = ex.submit(fp64.cvc5_check, pre + [z3.Not(z3.And(*pc))], cfg.get("cap", 1500))
        fb = ex.submit(fp64.cvc5_check, pre + pc + [z3.Not(post)], cfg.get("cap", 1500))
        ra, rb = fa.result(), fb.result()
    sx.observe("cvc5", [ra[0], round(ra[1], 1), rb[0], round(rb[1], 1), len(pc)])
    for tag, r in (("every-input-follows-the-accepting-path", ra), ("post-condition-on-that-path", rb)):
        if r[0] == "unknown":
            raise SolverUnknown(f"cvc5 {tag}: {str(r[2])[:120]}")
        if r[0] == "sat":
            m = fp64.model_floats(r[2], ["pmin", "pmax"])
            repro = None
            if len(m) == 2:
                with sx.native():
                    try:
                        repro = not native(m["pmin"], m["pmax"])
                    except Exception:  # noqa: BLE001
                        repro = True
                if repro:
                    os.makedirs(os.path.dirname(cex_file), exist_ok=True)
                    json.dump(m, open(cex_file, "w"))
            if repro:
                sx.check("binary64-lemma", False, counterexample=str(m), query=tag)
                return
            raise SolverUnknown(f"cvc5 {tag}: sat but the model {m} does not reproduce natively")
    sx.check("binary64-lemma", True, cvc5=[ra[0], round(ra[1], 1), rb[0], round(rb[1], 1)], pc_conjuncts=len(pc))


def h_fp_boundaries(sx, cfg):
    """binary64 sweep (native): probe points one ulp around the region faces and around every interior cell face map to an in-range
    index of a cell that contains the point up to the region tolerance; centres map back to their own index"""
    df = lib.load()
    with sx.native():
        import math

        lo, edge = cfg["pmin"], cfg["edge"]
        bad = []
        for n in cfg["ns"]:
            mesh = df.Mesh(p1=lo, p2=lo + edge, n=n)
            pmin, pmax = float(mesh.region.pmin[0]), float(mesh.region.pmax[0])
            c = float(mesh.cell[0])
            verts = [float(v) for v in mesh.vertices.x]
            probes = [pmin, math.nextafter(pmin, math.inf), pmax, math.nextafter(pmax, -math.inf)]
            for v in verts[1:-1]:
                probes += [v, math.nextafter(v, math.inf), math.nextafter(v, -math.inf)]
            for p_ in probes:
                try:
                    j = mesh.point2index(p_)[0]
                except Exception as ex:  # noqa: BLE001
                    bad.append((n, p_, type(ex).__name__))
                    continue
                tol = 4e-12 * (edge + abs(p_)) + 4 * abs(p_) * 2.3e-16
                if not (0 <= j < n) or not (pmin + j * c - tol <= p_ <= pmin + (j + 1) * c + tol):
                    bad.append((n, p_, j))
            for i in range(n):
                if mesh.point2index(mesh.index2point((i,)))[0] != i:
                    bad.append((n, "centre", i))
            # the per-axis vertex and centre lists describe the same lattice (a few ulps of the coordinates, no drift along the axis)
            ulp = 4 * 2.3e-16 * max(abs(pmin), abs(pmax), edge)
            cells = [float(v) for v in mesh.cells.x]
            if len(verts) != n + 1 or len(cells) != n:
                bad.append((n, "counts", len(verts), len(cells)))
                continue
            for i, v in enumerate(verts):
                if abs(v - (pmin + i * c)) > ulp * (1 + 0 * i):
                    bad.append((n, "vertex", i, v))
                    break
            if abs(verts[-1] - pmax) > ulp or abs(verts[0] - pmin) > ulp:
                bad.append((n, "end-vertices", verts[0], verts[-1]))
            for i, x in enumerate(cells):
                if abs(x - (pmin + (i + 0.5) * c)) > ulp or not (verts[i] < x < verts[i + 1]):
                    bad.append((n, "centre-list", i, x))
                    break
        sx.check("boundary-probes-in-range-and-contained", not bad, bad=str(bad[:5]))


def tasks(tier):
    t = []
    nds = (1, 2, 3) if tier == "quick" else (1, 2, 3, 4)
    for lo, edge in ((0.0, 1.0), (0.0, 7.0), (0.0, 100e-9), (-0.3, 0.9), (1e6, 3.0)) if tier == "quick" else ((0.0, 1.0), (0.0, 7.0), (0.0, 100e-9), (-0.3, 0.9), (1e6, 3.0), (5e-9, 2.5e-8), (-1e3, 0.7)):
        t.append(dict(harness="h_fp_boundaries", cfg=dict(pmin=lo, edge=edge, ns=list(range(1, 61 if tier == "quick" else 129)))))
    # many cells far from the origin (only these cell counts; every face is probed)
    t.append(dict(harness="h_fp_boundaries", cfg=dict(pmin=1e6, edge=2e-5, ns=[2000])))
    t.append(dict(harness="h_fp_boundaries", cfg=dict(pmin=-1e5, edge=4e-6, ns=[1000, 4000] if tier != "quick" else [1000])))
    for nd in nds:
        for dims in ("default", "renamed"):
            t.append(dict(harness="h_index2point", cfg=dict(ndim=nd, dims=dims)))
            t.append(dict(harness="h_point2index", cfg=dict(ndim=nd, dims=dims)))
    t.append(dict(harness="h_index2point", cfg=dict(ndim=1, dims="default", tuple1=True)))
    # histories: the maps are read, the mesh is transformed (in place and copying), the maps must describe the new lattice
    from . import C13

    hist = [x for x in C13.tasks(tier) if x["harness"] == "h_history" and x["cfg"].get("obj") == "mesh" and x["cfg"].get("subregions") == "none"]
    rot_inplace = [x for x in hist if any(st.get("kind") == "rotate" and st.get("inplace") for st in x["cfg"]["steps"])]
    other = [x for x in hist if x not in rot_inplace]
    for x in ((rot_inplace[::2] + other[::4]) if tier == "quick" else hist):
        t.append(dict(harness="h_lattice_after_transformations", cfg=x["cfg"], limits=x.get("limits", {})))
    if tier != "quick":
        # binary64 lemmas, one (n, i) per task; minutes of cvc5 time each
        for n in (1, 2, 3, 4, 5):
            for i in range(n):
                t.append(dict(harness="h_fp_roundtrip", cfg=dict(n=n, i=i), limits=dict(wall_budget=4000.0, validate=0)))
        for n in (1, 3, 4):
            t.append(dict(harness="h_fp_roundtrip", cfg=dict(n=n, i=n - 1, what="pmax"), limits=dict(wall_budget=4000.0, validate=0)))
    cellsets = [["1"], ["3/8"], ["1/1000000000"], ["1", "3/8"], ["7/3", "1/5"]]
    if tier != "quick":
        cellsets += [["5/1000000000", "3/1000000000", "1/1000000000"], ["1", "1", "1/3"], ["1000000", "1/7"]]
    for cs in cellsets:
        t.append(dict(harness="h_cell_ctor", cfg=dict(cell=cs)))
    for nd in (1, 2) if tier == "quick" else (1, 2, 3):
        t.append(dict(harness="h_cell_ctor_sign", cfg=dict(ndim=nd)))
    for nd in nds:
        t.append(dict(harness="h_cell_ctor_types", cfg=dict(ndim=nd)))
    if tier == "quick":
        shapes = [(1,), (3,), (2, 3), (3, 1), (2, 1, 3), (3, 2, 2)]
    else:
        shapes = [(k,) for k in range(1, 6)]
        shapes += [s for s in itertools.product(range(1, 6), repeat=2)]
        shapes += [s for s in itertools.product((1, 2, 3, 5), repeat=3)]
        shapes += [(2, 1, 3, 2), (1, 2, 2, 3), (3, 2, 1, 2)]
    for s in shapes:
        t.append(dict(harness="h_lattice", cfg=dict(n=list(s), dims="default" if sum(s) % 2 else "renamed")))
    for s in ((3,), (2, 3), (2, 1, 3)):
        t.append(dict(harness="h_lattice", cfg=dict(n=list(s), dims="default", n_as_array=True)))
    return t
