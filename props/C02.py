"""C02 -- a field holds exactly the value its specification assigns to every cell (DESIGN 2/C02)."""
from __future__ import annotations

import numpy as np

from symx import lib
from symx.sarray import symarray

from .common import DIMSETS, sym_mesh

META = dict(
    bounds=dict(
        quick=dict(also="callable that turns invalid after the first cell; same-count source fields; line values against point sampling",
                   ndim="1..3", n="<=3 per axis", nvdim="1..3", labels="default / custom / none",
                   subregions="none, two disjoint, two overlapping, three with one nested (cell-aligned)",
                   line_points="2..4", specs="constant, vector, per-cell array, (*n)-shaped scalar array, callable (UF), dict, field"),
        thorough=dict(ndim="1..4", n="<=4 per axis", nvdim="1..4", labels="default / custom / none",
                      subregions="as quick plus more layouts", line_points="2..5", specs="as quick"),
    ),
    stubs=["callable value specifications are uninterpreted functions of the point (every function at once)",
           "xarray: the real library (.sel(method='nearest') on concrete source coordinates, symbolic data)"],
    assumptions=[
        "REAL theory: floats are exact reals",
        "tolerance band at cell faces when sampling at a symbolic point (as C01)",
        "source-field resampling: concrete geometry (non-commensurate with the target), symbolic values",
        "line sampling in more than one dimension: symbolic origin and end points, concrete anisotropic edge lengths (fully symbolic geometry in 1-d; with symbolic edges the 2-d configurations did not finish within an hour)",
    ],
    outside=["NaN/inf values", "n > 4 per axis", "string/ object dtypes"],
)

LABELS = {
    "default": {1: None, 2: None, 3: None, 4: None},
    "custom": {1: ["s"], 2: ["a", "b"], 3: ["mx", "my", "mz"], 4: ["p", "q", "r", "t"]},
}


def _vd(cfg, nv):
    return LABELS[cfg.get("labels", "default")][nv]


def _expected_labels(cfg, nv):
    vd = _vd(cfg, nv)
    if vd is not None:
        return list(vd)
    if nv == 1:
        return None
    if nv <= 3:
        return ["x", "y", "z"][:nv]
    return [f"v{i}" for i in range(nv)]


def _centre(pmin, e, n, idx):
    return [pmin[a] + (idx[a] + 0.5) * e[a] / n[a] for a in range(len(n))]


def _ufv(sx, name, nv, pt):
    return [sx.uf(f"{name}{c}", *pt) for c in range(nv)]


def h_spec(sx, cfg):
    """constant / vector / per-cell array / callable: every cell holds the specification at its centre"""
    df = lib.load()
    n = tuple(cfg["n"])
    nd = len(n)
    nv = cfg["nvdim"]
    kind = cfg["spec"]
    dims = DIMSETS[cfg.get("dims", "default")][nd]
    mesh, pmin, e = sym_mesh(sx, n, dims=dims)
    vd = _vd(cfg, nv)
    expected = {}
    if kind == "const":
        vals = sx.reals("v", nv)
        value = vals[0] if nv == 1 and not cfg.get("as_list") else (list(vals) if cfg.get("as_list") else tuple(vals))
        for idx in np.ndindex(*n):
            expected[idx] = list(vals)
    elif kind == "array":
        arr = sx.real_array("v", (*n, nv))
        value = arr
        for idx in np.ndindex(*n):
            expected[idx] = [arr[idx + (c,)] for c in range(nv)]
    elif kind == "array_n":  # scalar field given with shape n
        arr = sx.real_array("v", n)
        value = arr
        for idx in np.ndindex(*n):
            expected[idx] = [arr[idx]]
    elif kind == "callable":
        calls = []

        def value(point):
            calls.append(point)
            out = _ufv(sx, "U", nv, list(point))
            return out[0] if nv == 1 and cfg.get("scalar_return") else out

        for idx in np.ndindex(*n):
            expected[idx] = _ufv(sx, "U", nv, _centre(pmin, e, n, idx))
    else:
        raise ValueError(kind)
    dtype = None
    if kind == "callable" and cfg.get("dtype"):
        dtype = cfg["dtype"]
    if cfg.get("via_update"):
        f = df.Field(mesh, nvdim=nv, vdims=vd, dtype=dtype)
        f.update_field_values(value)
    elif cfg.get("via_array_setter"):
        f = df.Field(mesh, nvdim=nv, vdims=vd, dtype=dtype)
        f.array = value
    else:
        f = df.Field(mesh, nvdim=nv, value=value, vdims=vd, dtype=dtype)
    if kind != "callable":
        sx.observe("array", f.array)
    sx.check("shape", tuple(np.shape(f.array)) == (*n, nv))
    sx.check("valid-shape", tuple(np.shape(f.valid)) == n and bool(np.all(f.valid)))
    for idx in np.ndindex(*n):
        for c in range(nv):
            sx.check(f"cell{idx}[{c}]", sx.eq(f.array[idx + (c,)], expected[idx][c]))
    # labels and component access
    labels = _expected_labels(cfg, nv)
    sx.check("labels", f.vdims == labels)
    if labels is not None:
        for c, lab in enumerate(labels):
            comp = getattr(f, lab)
            sx.check(f"component-meta[{c}]", comp.nvdim == 1 and comp.mesh == f.mesh and tuple(np.shape(comp.array)) == (*n, 1))
            for idx in np.ndindex(*n):
                sx.check(f"component[{c}]{idx}", sx.eq(comp.array[idx + (0,)], expected[idx][c]))
        try:
            getattr(f, "nonexistent_label")
        except AttributeError:
            sx.check("unknown-label-refused", True)
        else:
            sx.check("unknown-label-refused", False)
    # iteration in mesh order (first dimension fastest)
    order = [tuple(reversed(i)) for i in np.ndindex(*reversed(n))]
    got = list(f)
    sx.check("iter-len", len(got) == len(order))
    for t, idx in enumerate(order):
        if t < len(got):
            for c in range(nv):
                sx.check(f"iter[{t}][{c}]", sx.eq(got[t][c], expected[idx][c]))
    mi = [tuple(int(x) for x in i) for i in f.mesh.indices]
    sx.check("mesh-indices-order", mi == order)


def h_dtype(sx, cfg):
    """dtype kinds: the stored dtype follows the request / the value; values are the specification cast to it (concrete values)"""
    df = lib.load()
    n = tuple(cfg["n"])
    nv = cfg["nvdim"]
    kind = cfg["kind"]
    with sx.native():
        _dtype_body(sx, df, n, nv, kind)


def _dtype_body(sx, df, n, nv, kind):
    nd = len(n)
    pmin = [0.5 * a - 1 for a in range(nd)]
    e = [1.0 + 0.5 * a for a in range(nd)]
    mesh = df.Mesh(p1=tuple(pmin) if nd > 1 else pmin[0], p2=tuple(p + x for p, x in zip(pmin, e)) if nd > 1 else pmin[0] + e[0], n=n if nd > 1 else n[0])
    base = {"int": [3, -2, 7, 5], "float": [0.5, -1.25, 2.0, 8.5], "complex": [1 + 2j, -0.5j, 3.0, 2 - 1j], "bool": [True, False, True, True]}[kind][:nv]
    value = base[0] if nv == 1 else tuple(base)
    dt = {"int": np.int64, "float": np.float64, "complex": np.complex128, "bool": np.bool_}[kind]
    f = df.Field(mesh, nvdim=nv, value=value, dtype=dt)
    sx.check("dtype-explicit", f.array.dtype == np.dtype(dt))
    sx.check("shape", f.array.shape == (*n, nv))
    sx.check("values", bool(np.all(f.array == np.asarray(base, dtype=dt))))
    f2 = df.Field(mesh, nvdim=nv, value=value)
    want = np.complex128 if kind == "complex" else np.float64
    sx.check("dtype-default", f2.array.dtype == np.dtype(want))
    sx.check("values-default", bool(np.all(f2.array == np.asarray(base).astype(want))))
    arr = np.empty((*n, nv), dtype=dt)
    for t, idx in enumerate(np.ndindex(*n)):
        arr[idx] = np.roll(np.asarray(base, dtype=dt), t)
    f3 = df.Field(mesh, nvdim=nv, value=arr, dtype=dt)
    sx.check("array-dtype", f3.array.dtype == np.dtype(dt) and bool(np.all(f3.array == arr)))
    # symbolic point sampling returns the stored entry for concrete data as well
    p = [pmin[a] + e[a] * 0.25 for a in range(len(n))]
    got = f3(tuple(p) if len(n) > 1 else p[0])
    sx.check("sample-first-cell", bool(np.all(np.asarray(got) == arr[(0,) * len(n)])))


SUBLAYOUTS = {
    # name -> ordered list of (name, lo index vector fn, hi index vector fn) in units of cells
    "two": lambda n: [("s1", [0] * len(n), [max(1, n[0] // 2)] + list(n[1:])), ("s2", [max(1, n[0] // 2)] + [0] * (len(n) - 1), list(n))],
    "overlap": lambda n: [("s1", [0] * len(n), [min(n[0], 2)] + list(n[1:])), ("s2", [min(1, n[0] - 1)] + [0] * (len(n) - 1), list(n))],
    "overlap_rev": lambda n: [("s2", [min(1, n[0] - 1)] + [0] * (len(n) - 1), list(n)), ("s1", [0] * len(n), [min(n[0], 2)] + list(n[1:]))],
    "nested": lambda n: [("inner", [1] + [0] * (len(n) - 1), [2] + [1] * (len(n) - 1)), ("outer", [0] * len(n), list(n)), ("s3", [0] * len(n), [1] * len(n))],
    "partial": lambda n: [("s1", [0] * len(n), [1] + list(n[1:]))],
}


def h_dict(sx, cfg):
    """per-subregion dictionary: first-listed subregion containing the cell wins, then the default"""
    df = lib.load()
    n = tuple(cfg["n"])
    nd = len(n)
    nv = cfg["nvdim"]
    mesh0, pmin, e = sym_mesh(sx, n, flip=False)
    c = [e[a] / n[a] for a in range(nd)]
    layout = SUBLAYOUTS[cfg["layout"]](list(n))
    subs = {}
    for name, lo, hi in layout:
        subs[name] = df.Region(p1=[pmin[a] + lo[a] * c[a] for a in range(nd)], p2=[pmin[a] + hi[a] * c[a] for a in range(nd)])
    mesh = df.Mesh(region=mesh0.region, n=n, subregions=subs)
    sx.check("subregion-order-kept", list(mesh.subregions) == [x[0] for x in layout])
    spec = {}
    how = {}
    kinds = cfg["kinds"]  # per subregion name -> 'const' | 'callable' | 'absent'; plus 'default'
    for name in [x[0] for x in layout] + ["default"]:
        k = kinds.get(name, "const")
        how[name] = k
        if k == "const":
            vals = sx.reals(f"v_{name}_", nv)
            spec[name] = vals[0] if nv == 1 else tuple(vals)
            how[name] = ("const", vals)
        elif k == "callable":
            def fn(point, _name=name):
                return _ufv(sx, f"U_{_name}_", nv, list(point))
            spec[name] = fn
        elif k == "absent":
            pass

    def expected(idx):
        for name, lo, hi in layout:
            if all(lo[a] <= idx[a] < hi[a] for a in range(nd)) and how[name] != "absent":
                return name
        return "default"

    uncovered = any(expected(idx) == "default" for idx in np.ndindex(*n))
    try:
        f = df.Field(mesh, nvdim=nv, value=spec)
    except KeyError:
        sx.check("keyerror-only-when-default-needed-and-missing", uncovered and how["default"] == "absent")
        return
    sx.check("accepted-only-when-covered-or-default", (not uncovered) or how["default"] != "absent")
    sx.check("shape", tuple(np.shape(f.array)) == (*n, nv))
    for idx in np.ndindex(*n):
        name = expected(idx)
        h = how[name]
        if h == "absent":
            continue
        if isinstance(h, tuple):
            exp = list(h[1])
        else:
            exp = _ufv(sx, f"U_{name}_", nv, _centre(pmin, e, n, idx))
        for k in range(nv):
            sx.check(f"cell{idx}[{k}]<-{name}", sx.eq(f.array[idx + (k,)], exp[k]))


def h_sample(sx, cfg):
    """f(p) for a symbolic point p: the stored value of the cell containing p; outside rejected"""
    df = lib.load()
    n = tuple(cfg["n"])
    nd = len(n)
    nv = cfg["nvdim"]
    mesh, pmin, e = sym_mesh(sx, n)
    arr = sx.real_array("v", (*n, nv))
    f = df.Field(mesh, nvdim=nv, value=arr)
    p = sx.reals("p", nd)
    tf = 1e-12
    mine = e[0]
    for a in range(1, nd):
        mine = sx.min(mine, e[a])
    inside = sx.And(*[sx.And(p[a] >= pmin[a], p[a] <= pmin[a] + e[a]) for a in range(nd)])
    try:
        got = f(tuple(p) if nd > 1 else p[0])
    except ValueError:
        sx.check("reject-only-outside", sx.Not(inside))
        return
    sx.check("value-shape", tuple(np.shape(got)) == (nv,))
    # oracle: for every cell j whose interior (shrunk by the band) contains p the value is arr[j]
    for idx in np.ndindex(*n):
        conds = []
        for a in range(nd):
            band = 2 * tf * (mine + abs(p[a]))
            c = e[a] / n[a]
            lo = pmin[a] + idx[a] * c
            hi = lo + c
            lower = p[a] >= lo + band if idx[a] > 0 else p[a] >= lo
            upper = p[a] < hi - band if idx[a] < n[a] - 1 else p[a] <= hi
            conds.append(sx.And(lower, upper))
        incell = sx.And(*conds)
        for k in range(nv):
            sx.check(f"cell{idx}[{k}]", sx.Implies(incell, sx.eq(got[k], arr[idx + (k,)])))
    # and in any case it is the value of *some* cell whose closed, band-enlarged box contains p
    alts = []
    for idx in np.ndindex(*n):
        conds = []
        for a in range(nd):
            band = 2 * tf * (mine + abs(p[a]))
            c = e[a] / n[a]
            lo = pmin[a] + idx[a] * c
            conds.append(sx.And(p[a] >= lo - band, p[a] <= lo + c + band))
        alts.append(sx.And(*conds, *[sx.eq(got[k], arr[idx + (k,)]) for k in range(nv)]))
    sx.check("some-containing-cell", sx.Or(*alts))


def h_line(sx, cfg):
    """f.line(p1, p2, n): n equidistant points from p1 to p2 inclusive, their values and distances"""
    df = lib.load()
    n = tuple(cfg["n"])
    nd = len(n)
    nv = cfg["nvdim"]
    npts = cfg["points"]
    if cfg.get("edges"):
        # symbolic origin, concrete (binary-exact, anisotropic) edge lengths: index arithmetic stays linear
        pmin = sx.reals("pmin", nd)
        e = [float(x) for x in cfg["edges"]]
        mesh = df.Mesh(p1=tuple(pmin), p2=tuple(pmin[a] + e[a] for a in range(nd)), n=n)
    else:
        mesh, pmin, e = sym_mesh(sx, n, flip=False)
    arr = sx.real_array("v", (*n, nv))
    vd = _vd(cfg, nv)
    f = df.Field(mesh, nvdim=nv, value=arr, vdims=vd)
    # end points: barycentric parameters in [0,1] keep them in the region
    s1 = sx.reals("s", nd)
    s2 = sx.reals("t", nd)
    for x in s1 + s2:
        sx.assume(sx.And(x >= 0, x <= 1))
    p1 = [pmin[a] + s1[a] * e[a] for a in range(nd)]
    p2 = [pmin[a] + s2[a] * e[a] for a in range(nd)]
    if cfg.get("outside"):
        out = sx.real("out")
        ax = cfg["outside"] - 1
        p2 = list(p2)
        p2[ax] = pmin[ax] + e[ax] + out
        mine0 = e[0]
        for a in range(1, nd):
            mine0 = sx.min(mine0, e[a])
        sx.assume(out > 2 * 1e-12 * (mine0 + abs(p2[ax])))  # beyond the region's comparison tolerance
        try:
            f.line(p1=tuple(p1) if nd > 1 else p1[0], p2=tuple(p2) if nd > 1 else p2[0], n=npts)
        except ValueError:
            sx.check("endpoint-outside-refused", True)
        else:
            sx.check("endpoint-outside-refused", False)
        return
    try:
        line = f.line(p1=tuple(p1) if nd > 1 or cfg.get("tuple1") else p1[0], p2=tuple(p2) if nd > 1 or cfg.get("tuple1") else p2[0], n=npts)
    except Exception as ex:  # noqa: BLE001
        sx.check("line-in-region-accepted", False, exc=f"{type(ex).__name__}: {ex}")
        return
    sx.check("line-in-region-accepted", True)
    sx.check("n-points", line.n == npts and len(line.data) == npts)
    sx.check("dim", line.dim == nv)
    dims = list(mesh.region.dims)
    sx.check("point-columns", list(line.point_columns) == dims)
    labels = _expected_labels(cfg, nv)
    sx.check("value-columns", list(line.value_columns) == ([f"v{l}" for l in labels] if labels else ["v"]))
    tf = 1e-12
    mine = e[0]
    for a in range(1, nd):
        mine = sx.min(mine, e[a])
    for t in range(npts):
        pt = [p1[a] + (p2[a] - p1[a]) * t / (npts - 1) for a in range(nd)]
        row = line.data.iloc[t]
        for a in range(nd):
            sx.check(f"point[{t}][{a}]", sx.eq(row[dims[a]], pt[a]))
        r = row["r"]
        d2 = 0.0
        for a in range(nd):
            d2 = d2 + (pt[a] - p1[a]) * (pt[a] - p1[a])
        sx.check(f"r[{t}]", sx.And(r >= 0, sx.eq(r * r, d2)))
        # value: that of a cell containing the point (band at faces).  In the compositional configurations this is split into
        # "line value == field(point)" (below) and h_sample's "field(point) is the value of a containing cell"
        alts = []
        for idx in (np.ndindex(*n) if not cfg.get("compositional") else ()):
            conds = []
            for a in range(nd):
                band = 2 * tf * (mine + abs(pt[a]))
                c = e[a] / n[a]
                lo = pmin[a] + idx[a] * c
                conds.append(sx.And(pt[a] >= lo - band, pt[a] <= lo + c + band))
            vals = [sx.eq(row[col], arr[idx + (k,)]) for k, col in enumerate(line.value_columns)]
            alts.append(sx.And(*conds, *vals))
        if alts:
            sx.check(f"value[{t}]", sx.Or(*alts))
        # "the values at those points": the same value as sampling the field at the line's own point
        direct = f(tuple(row[d] for d in dims) if nd > 1 else row[dims[0]])
        for k, col in enumerate(line.value_columns):
            sx.check(f"value[{t}][{k}]-is-field-at-point", sx.eq(row[col], direct[k]))
    # last point is p2 exactly
    last = line.data.iloc[npts - 1]
    for a in range(nd):
        sx.check(f"last-is-p2[{a}]", sx.eq(last[dims[a]], p2[a]))


def h_from_field(sx, cfg):
    """value given as another field: each target cell takes the value of the source cell containing its centre"""
    df = lib.load()
    src_n = tuple(cfg["src_n"])
    tgt_n = tuple(cfg["tgt_n"])
    nd = len(src_n)
    nv = cfg["nvdim"]
    sp1, sp2 = cfg["src_box"]
    tp1, tp2 = cfg["tgt_box"]
    src_mesh = df.Mesh(p1=tuple(sp1) if nd > 1 else sp1[0], p2=tuple(sp2) if nd > 1 else sp2[0], n=src_n if nd > 1 else src_n[0])
    tgt_mesh = df.Mesh(p1=tuple(tp1) if nd > 1 else tp1[0], p2=tuple(tp2) if nd > 1 else tp2[0], n=tgt_n if nd > 1 else tgt_n[0])
    arr = sx.real_array("v", (*src_n, nv))
    vd = _vd(cfg, nv)
    src = df.Field(src_mesh, nvdim=nv, value=arr, vdims=vd)
    contained = all(min(sp1[a], sp2[a]) <= min(tp1[a], tp2[a]) and max(tp1[a], tp2[a]) <= max(sp1[a], sp2[a]) for a in range(nd))
    try:
        f = df.Field(tgt_mesh, nvdim=nv, value=src)
    except ValueError:
        sx.check("refused-only-when-not-contained", not contained)
        return
    sx.check("accepted-only-when-contained", contained)
    sx.check("shape", tuple(np.shape(f.array)) == (*tgt_n, nv))
    from fractions import Fraction as F

    for idx in np.ndindex(*tgt_n):
        cands = None
        for a in range(nd):
            tlo, thi = F(min(tp1[a], tp2[a])), F(max(tp1[a], tp2[a]))
            slo, shi = F(min(sp1[a], sp2[a])), F(max(sp1[a], sp2[a]))
            centre = tlo + (F(2 * idx[a] + 1) / 2) * (thi - tlo) / tgt_n[a]
            sc = (shi - slo) / src_n[a]
            q = (centre - slo) / sc
            # a centre within 1e-9 cells of a source face may resolve to either neighbour (float geometry)
            near = round(q)
            ja = [int(q // 1)] if abs(q - near) > F(1, 10**9) else [int(near) - 1, int(near)]
            ja = [j for j in ja if 0 <= j < src_n[a]]
            cands = [[j] for j in ja] if cands is None else [c + [j] for c in cands for j in ja]
        for k in range(nv):
            sx.check(f"cell{idx}[{k}]", sx.Or(*[sx.eq(f.array[idx + (k,)], arr[tuple(cd) + (k,)]) for cd in cands]))


def h_history(sx, cfg):
    """history: the field is sampled, rotated in place (anisotropic cells), values written in place; sampling at every cell centre
    of the current mesh (computed from the region corners and n) still returns that cell's stored value, and a line follows"""
    df = lib.load()
    n = tuple(cfg["n"])
    nd = len(n)
    mesh, pmin, e = sym_mesh(sx, n, flip=False)
    arr = sx.real_array("v", (*n, 1))
    f = df.Field(mesh, nvdim=1, value=arr)
    first = f(tuple(pmin[a] + e[a] / (2 * n[a]) for a in range(nd)))
    sx.check("sample-before", sx.eq(first[0], arr[(0,) * nd + (0,)]))
    a, b = cfg.get("plane", (0, 1))
    dims = mesh.region.dims
    ret = f.rotate90(dims[a], dims[b], k=cfg.get("k", 1), inplace=True)
    sx.check("inplace-returns-self", ret is f)
    nn = tuple(int(x) for x in f.mesh.n)
    lo, hi = list(f.mesh.region.pmin), list(f.mesh.region.pmax)
    for J in np.ndindex(*nn):
        pt = [lo[q] + (J[q] + 0.5) * (hi[q] - lo[q]) / nn[q] for q in range(nd)]
        got = f(tuple(pt))
        sx.check(f"sample-after-inplace-rotation{J}", sx.eq(got[0], f.array[J + (0,)]))
    w = sx.real("w")
    f.array[(0,) * nd + (0,)] = w
    pt0 = [lo[q] + 0.5 * (hi[q] - lo[q]) / nn[q] for q in range(nd)]
    sx.check("sample-after-in-place-write", sx.eq(f(tuple(pt0))[0], w))
    ptl = [hi[q] - 0.5 * (hi[q] - lo[q]) / nn[q] for q in range(nd)]
    line = f.line(p1=tuple(pt0), p2=tuple(ptl), n=2)
    sx.check("line-after-history", sx.And(sx.eq(line.data.iloc[0]["v"], w), sx.eq(line.data.iloc[1]["v"], f.array[tuple(k - 1 for k in nn) + (0,)])))


def h_reject(sx, cfg):
    """wrong shape / component count / type: refused, and an existing field is left unchanged"""
    df = lib.load()
    n = tuple(cfg["n"])
    nv = cfg["nvdim"]
    mesh, pmin, e = sym_mesh(sx, n)
    arr = sx.real_array("v", (*n, nv))
    f = df.Field(mesh, nvdim=nv, value=arr)
    before = f.array
    snapshot = np.array(before, dtype=object, copy=True)
    w = sx.real("w")
    sx.assume(sx.ne(w, -1))  # a scalar 0 is the documented shorthand for the zero vector
    bad = [
        ("wrong-trailing-length", [w] * (nv + 1), (ValueError,)),
        ("wrong-full-shape", symarray(np.full((*[k + 1 for k in n], nv), w, dtype=object)), (ValueError,)),
        ("string", "abc", (TypeError,)),
        ("unsupported-type", object(), (TypeError,)),
        ("none", None, (TypeError,)),
    ]
    if nv > 1:
        bad.append(("scalar-for-vector", w + 1, (ValueError,)))
        bad.append(("concrete-scalar-for-vector", 2.5, (ValueError,)))
    else:
        bad.append(("vector-for-scalar", (w, w), (ValueError,)))
    calls = []

    def partly_bad(point):
        # fits the field for the first cell, has one component too many afterwards
        calls.append(1)
        return [w] * (nv if len(calls) == 1 else nv + 1)

    bad.append(("callable-wrong-length-after-first-cell", partly_bad, (ValueError,)))
    for name, val, excs in bad:
        for route in ("update", "setter"):
            del calls[:]
            try:
                if route == "update":
                    f.update_field_values(val)
                else:
                    f.array = val
            except excs:
                ok = True
            except Exception:  # noqa: BLE001
                ok = False
            else:
                ok = False
            sx.check(f"refused-{name}-{route}", ok)
            sx.check(f"same-object-after-{name}-{route}", f.array is before)
            sx.check(f"unchanged-after-{name}-{route}", sx.eq(f.array, snapshot))
    for name, kw, excs in (
        ("ctor-nvdim-zero", dict(nvdim=0), (ValueError,)),
        ("ctor-nvdim-float", dict(nvdim=1.0), (TypeError,)),
        ("ctor-mesh-type", dict(mesh="m", nvdim=1), (TypeError,)),
        ("ctor-vdims-count", dict(nvdim=2, vdims=["a"]), (ValueError,)),
        ("ctor-vdims-dup", dict(nvdim=2, vdims=["a", "a"]), (ValueError,)),
        ("ctor-vdims-type", dict(nvdim=2, vdims=[1, 2]), (TypeError,)),
    ):
        args = dict(mesh=mesh)
        args.update(kw)
        try:
            df.Field(**args)
        except excs:
            sx.check(name, True)
        except Exception:  # noqa: BLE001
            sx.check(name, False)
        else:
            sx.check(name, False)


def tasks(tier):
    t = []
    q = tier == "quick"
    # specifications
    shapes = [((3,), 1), ((2,), 3), ((2, 3), 2), ((3, 1), 1), ((2, 1, 2), 3), ((1, 2, 2), 1), ((1, 2, 2, 2), 1)]
    if not q:
        shapes += [((4,), 2), ((1,), 1), ((3, 3), 3), ((4, 2), 4), ((2, 2, 2), 2), ((3, 2, 1), 4), ((2, 1, 2, 2), 1), ((1, 2, 1, 2), 3)]
    for i, (n, nv) in enumerate(shapes):
        for spec in ("const", "array", "callable") + (("array_n",) if nv == 1 else ()):
            cfg = dict(n=list(n), nvdim=nv, spec=spec, labels="custom" if (i + len(spec)) % 2 else "default",
                       dims="renamed" if i % 2 else "default")
            if spec == "const":
                cfg["as_list"] = bool(i % 2)
            if spec == "callable":
                cfg["scalar_return"] = bool(i % 2)
            if i % 3 == 1:
                cfg["via_update"] = True
            elif i % 3 == 2 and spec != "callable":
                cfg["via_array_setter"] = True
            t.append(dict(harness="h_spec", cfg=cfg))
    for kind in ("int", "float", "complex", "bool"):
        for n, nv in (((2, 2), 1), ((2, 1, 2), 3)) if q else (((2, 2), 1), ((2, 1, 2), 3), ((3,), 2), ((1, 2, 1, 2), 4)):
            t.append(dict(harness="h_dtype", cfg=dict(n=list(n), nvdim=nv, kind=kind)))
    # dictionaries
    dshapes = [((3,), 1), ((3, 2), 2), ((2, 2, 2), 3)] if q else [((3,), 1), ((4,), 2), ((3, 2), 2), ((2, 3), 1), ((2, 2, 2), 3), ((3, 2, 2), 1), ((3, 1, 2, 1), 2)]
    for n, nv in dshapes:
        for layout in ("two", "overlap", "overlap_rev", "nested", "partial"):
            if layout == "nested" and n[0] < 2:
                continue
            names = [x[0] for x in SUBLAYOUTS[layout](list(n))]
            variants = [
                dict(),  # all const, default const
                dict(default="callable"),
                dict(default="absent"),
                {names[0]: "callable"},
                {names[-1]: "absent", "default": "callable"},
                {names[0]: "absent"},
                {names[0]: "absent", "default": "absent"},
            ]
            if q:
                variants = variants[:: 2] if len(n) > 1 else variants
            for kinds in variants:
                t.append(dict(harness="h_dict", cfg=dict(n=list(n), nvdim=nv, layout=layout, kinds=kinds)))
    # sampling
    for n, nv in ([((3,), 1), ((2, 2), 2), ((2, 1, 2), 1)] if q else [((4,), 1), ((3,), 2), ((3, 2), 2), ((2, 3), 1), ((2, 2, 2), 3), ((2, 1, 2, 1), 1)]):
        t.append(dict(harness="h_sample", cfg=dict(n=list(n), nvdim=nv), limits=dict(max_paths=20000, wall_budget=900)))
    # lines
    EDGES = {(2, 2): [1.5, 0.5], (2, 1): [0.75, 2.0], (3, 2): [0.375, 2.5], (3, 3): [3.0, 0.75], (2, 1, 2): [1.0, 0.25, 3.5]}
    for n, nv, pts in ([((2,), 1, 3), ((2, 2), 2, 2), ((2, 1), 3, 3)] if q else [((3,), 1, 4), ((2,), 2, 5), ((2, 2), 2, 3), ((2, 1, 2), 3, 2), ((3, 2), 1, 3), ((3, 3), 1, 2)]):
        # more than one dimension: symbolic origin and end points on concrete anisotropic edge lengths (with symbolic edges every
        # index computation is a quotient of two symbolic terms; those configurations did not finish within an hour)
        t.append(dict(harness="h_line", cfg=dict(n=list(n), nvdim=nv, points=pts, labels="custom" if nv > 1 and pts % 2 else "default",
                                                 **(dict(edges=EDGES[tuple(n)]) if len(n) > 1 else {})),
                      limits=dict(max_paths=20000, wall_budget=900 if q else 3300)))
        t.append(dict(harness="h_line", cfg=dict(n=list(n), nvdim=nv, points=pts, outside=len(n))))
    # source fields (concrete, pairwise non-commensurate geometry; symbolic values)
    ff = [
        dict(src_n=[3], tgt_n=[4], src_box=[[0.0], [3.0]], tgt_box=[[0.25], [2.9]], nvdim=1),
        dict(src_n=[3, 2], tgt_n=[2, 3], src_box=[[-1.0, 0.0], [2.0, 1.0]], tgt_box=[[-0.9, 0.1], [1.7, 0.95]], nvdim=2),
        dict(src_n=[2, 2], tgt_n=[4, 2], src_box=[[0.0, 0.0], [2.0, 2.0]], tgt_box=[[0.0, 0.0], [2.0, 2.0]], nvdim=1),  # commensurate: faces hit
        dict(src_n=[2, 2, 1], tgt_n=[1, 3, 2], src_box=[[0, 0, 0], [4.0, 6.0, 1.0]], tgt_box=[[0.5, 0.5, 0.1], [3.5, 5.5, 0.9]], nvdim=3, labels="custom"),
        dict(src_n=[2], tgt_n=[2], src_box=[[0.0], [1.0]], tgt_box=[[0.5], [1.5]], nvdim=1),  # not contained
        # same number of cells, target strictly inside the source: cells do not coincide
        dict(src_n=[3], tgt_n=[3], src_box=[[0.0], [3.0]], tgt_box=[[1.0], [2.8]], nvdim=1),
        dict(src_n=[2, 3], tgt_n=[2, 3], src_box=[[0.0, 0.0], [2.0, 3.0]], tgt_box=[[1.1, 0.2], [1.9, 1.3]], nvdim=2),
        dict(src_n=[2, 2], tgt_n=[1, 1], src_box=[[0.0, 0.0], [1.0, 1.0]], tgt_box=[[-0.5, 0.0], [0.5, 1.0]], nvdim=2),  # not contained
    ]
    if not q:
        ff += [
            dict(src_n=[5], tgt_n=[3], src_box=[[1.0], [-4.0]], tgt_box=[[-3.7], [0.6]], nvdim=2),
            dict(src_n=[3, 3], tgt_n=[5, 2], src_box=[[0.0, 0.0], [3e-9, 6e-9]], tgt_box=[[0.1e-9, 0.3e-9], [2.8e-9, 5.9e-9]], nvdim=1),
            dict(src_n=[2, 3, 2], tgt_n=[3, 2, 3], src_box=[[0, 0, 0], [2.0, 3.0, 2.0]], tgt_box=[[0.1, 0.2, 0.3], [1.9, 2.8, 1.7]], nvdim=3),
            dict(src_n=[2, 1, 2, 1], tgt_n=[1, 2, 1, 2], src_box=[[0, 0, 0, 0], [2.0, 1.0, 2.0, 1.0]], tgt_box=[[0.2, 0.1, 0.2, 0.1], [1.9, 0.9, 1.7, 0.9]], nvdim=1),
        ]
    for cfg in ff:
        t.append(dict(harness="h_from_field", cfg=cfg))
    for n, nv in ([((2, 2), 1), ((2,), 3)] if q else [((2, 2), 1), ((2,), 3), ((2, 1, 2), 2), ((3,), 1)]):
        t.append(dict(harness="h_reject", cfg=dict(n=list(n), nvdim=nv)))
    for n, plane, k in ([((2, 3), (0, 1), 1), ((3, 1, 2), (2, 0), 3)] if q else [((2, 3), (0, 1), 1), ((3, 1, 2), (2, 0), 3), ((2, 3), (1, 0), -1), ((2, 2, 3), (1, 2), 1)]):
        t.append(dict(harness="h_history", cfg=dict(n=list(n), plane=list(plane), k=k), limits=dict(max_paths=2000)))
    return t
