"""C08 -- validity masks follow the data through every operation that keeps or maps cells (DESIGN 2/C08)."""
from __future__ import annotations

import numpy as np

from symx import lib

from .common import sym_mesh

# data-mapping operations: the C07 / C12 harnesses check validity cell by cell together with the data (same index map)
from .C07 import h_by_name as h_sel_by_name  # noqa: F401
from .C07 import h_by_region as h_sel_by_region  # noqa: F401
from .C07 import h_pad as h_sel_pad  # noqa: F401
from .C07 import h_plane as h_sel_plane  # noqa: F401
from .C07 import h_range as h_sel_range  # noqa: F401
from .C07 import h_resample as h_sel_resample  # noqa: F401
from .C10 import h_roundtrip as h_hdf5_roundtrip  # noqa: F401  (validity bit per cell through the HDF5 writer/reader)
from .C12 import h_field as h_rotate90  # noqa: F401  (validity bit per cell moves with the quarter turn)
from .C16 import h_grid as h_vtk_grid  # noqa: F401  (validity flag in the VTK cell located at each position)
from .C16 import h_roundtrip as h_vtk_roundtrip  # noqa: F401

META = dict(
    bounds=dict(
        quick=dict(mesh_n="(2,2), (3,), (2,1,2)", nvdim="1..3", operators="every Field operator/method returning a field on the same cells (enumerated below); "
                   "selection/padding/resampling via the C07 harnesses; rotation via C12; HDF5/VTK via C10/C16",
                   validity="one symbolic bit per cell and operand"),
        thorough=dict(mesh_n="(2,2), (3,), (2,1,2), (3,2,1)", nvdim="1..3", operators="as quick plus compositions of depth 2", validity="symbolic"),
    ),
    stubs=["sin/arccos/phase uninterpreted"],
    assumptions=["REAL theory", "'norm' threshold: lengths within 1e-8*(1 +- 1e-5) of the threshold may count either way",
                 "aliasing (shares-memory / write-through) is decided on a native execution per operator: it has no data dependence"],
    outside=["operations that change the cell set other than those listed", "NaN values"],
)

LABELS = {1: None, 2: ["a", "b"], 3: ["a", "b", "c"]}


def _mk(sx, df, mesh, n, nv, name, labels=True):
    arr = sx.real_array(name, (*n, nv))
    valid = sx.bool_array(name + "ok", n)
    f = df.Field(mesh, nvdim=nv, value=arr, valid=valid, vdims=LABELS[nv] if labels else None)
    return f, arr, valid


def _unary_ops(nv):
    import numpy as real_np

    ops = {
        "neg": lambda f: -f,
        "pos": lambda f: +f,
        "abs": lambda f: abs(f),
        "pow2": lambda f: f**2,
        "mul-number": lambda f: f * 2.5,
        "rmul-number": lambda f: 2.5 * f,
        "add-number": lambda f: f + 1.0,
        "rsub-number": lambda f: 1.0 - f,
        "div-number": lambda f: f / 4.0,
        "norm": lambda f: f.norm,
        "orientation": lambda f: f.orientation,
        "real": lambda f: f.real,
        "imag": lambda f: f.imag,
        "conjugate": lambda f: f.conjugate,
        "complex-abs": lambda f: f.abs,
        "ufunc-negative": lambda f: real_np.negative(f),
        "ufunc-sin": lambda f: real_np.sin(f),
        "ufunc-multiply-number": lambda f: real_np.multiply(f, 3.0),
    }
    if nv > 1:
        ops["component-first"] = lambda f: getattr(f, f.vdims[0])
        ops["component-last"] = lambda f: getattr(f, f.vdims[-1])
        ops["mul-vector"] = lambda f: f * tuple(range(1, nv + 1))
        ops["dot-vector"] = lambda f: f.dot(tuple(range(1, nv + 1)))
        ops["angle-vector"] = lambda f: f.angle(tuple(range(1, nv + 1)))
        ops["stack-number"] = lambda f: f << 1.0
    if nv == 3:
        ops["cross-vector"] = lambda f: f.cross((1.0, 0.0, 2.0))
    return ops


def _binary_ops(nv):
    import numpy as real_np

    ops = {
        "add": lambda f, g: f + g,
        "sub": lambda f, g: f - g,
        "mul": lambda f, g: f * g,
        "div": lambda f, g: f / g,
        "dot": lambda f, g: f.dot(g),
        "matmul": lambda f, g: f @ g,
        "angle": lambda f, g: f.angle(g),
        "stack": lambda f, g: f << g,
        "ufunc-add": lambda f, g: real_np.add(f, g),
    }
    if nv == 3:
        ops["cross"] = lambda f, g: f.cross(g)
        ops["and"] = lambda f, g: f & g
    return ops


def h_unary(sx, cfg):
    """result validity == operand validity, for every unary / field-with-constant operation"""
    df = lib.load()
    n = tuple(cfg["n"])
    nv = cfg["nvdim"]
    mesh, pmin, e = sym_mesh(sx, n, flip=False)
    f, arr, valid = _mk(sx, df, mesh, n, nv, "f")
    op = _unary_ops(nv)[cfg["op"]]
    if cfg["op"] in ("angle-vector", "orientation", "norm"):
        pass
    if cfg["op"] == "angle-vector":
        for idx in np.ndindex(*n):
            sx.assume(sx.Or(*[sx.ne(arr[idx + (k,)], 0) for k in range(nv)]))
    try:
        r = op(f)
    except Exception as ex:  # noqa: BLE001
        sx.check("operation-accepted", False, exc=f"{type(ex).__name__}: {ex}")
        return
    sx.check("is-field-on-mesh", isinstance(r, df.Field) and r.mesh == mesh)
    ok = tuple(np.shape(r.valid)) == n
    sx.check("valid-shape", ok)
    if ok:
        for idx in np.ndindex(*n):
            sx.check(f"valid{idx}", sx.eq(sx.truth(r.valid[idx]), sx.truth(valid[idx])))
    if cfg["op"] != "pos":  # +f is documented to return the field itself
        sx.check("own-mask-object", r.valid is not f.valid)
    sx.check("operand-valid-untouched", sx.And(*[sx.eq(sx.truth(f.valid[idx]), sx.truth(valid[idx])) for idx in np.ndindex(*n)]))
    sx.check("operand-values-untouched", sx.eq(f.array, arr))


def h_diff(sx, cfg):
    df = lib.load()
    n = tuple(cfg["n"])
    nv = cfg["nvdim"]
    mesh, pmin, e = sym_mesh(sx, n, flip=False, bc=cfg.get("bc", ""))
    f, arr, valid = _mk(sx, df, mesh, n, nv, "f")
    r = f.diff(mesh.region.dims[cfg["axis"]], order=cfg["order"], restrict2valid=cfg.get("restrict", True))
    sx.check("is-field-on-mesh", isinstance(r, df.Field) and r.mesh == mesh and tuple(np.shape(r.valid)) == n)
    for idx in np.ndindex(*n):
        sx.check(f"valid{idx}", sx.eq(sx.truth(r.valid[idx]), sx.truth(valid[idx])))
    sx.check("own-mask-object", r.valid is not f.valid)
    sx.check("operand-valid-untouched", sx.And(*[sx.eq(sx.truth(f.valid[idx]), sx.truth(valid[idx])) for idx in np.ndindex(*n)]))


def h_binary(sx, cfg):
    """result validity == cell-wise AND of both operands"""
    df = lib.load()
    n = tuple(cfg["n"])
    nv = cfg["nvdim"]
    mesh, pmin, e = sym_mesh(sx, n, flip=False)
    f, fa, fv = _mk(sx, df, mesh, n, nv, "f")
    gnv = 1 if cfg.get("scalar_other") else nv
    g, ga, gv = _mk(sx, df, mesh, n, gnv, "g", labels=False)
    name = cfg["op"]
    if name in ("div", "angle"):
        for idx in np.ndindex(*n):
            if name == "div":
                for k in range(gnv):
                    sx.assume(sx.ne(ga[idx + (k,)], 0))
            else:
                sx.assume(sx.Or(*[sx.ne(ga[idx + (k,)], 0) for k in range(gnv)]))
                sx.assume(sx.Or(*[sx.ne(fa[idx + (k,)], 0) for k in range(nv)]))
    op = _binary_ops(nv)[name]
    a, b = (g, f) if cfg.get("swap") else (f, g)
    try:
        r = op(a, b)
    except Exception as ex:  # noqa: BLE001
        sx.check("operation-accepted", False, exc=f"{type(ex).__name__}: {ex}")
        return
    sx.check("is-field-on-mesh", isinstance(r, df.Field) and r.mesh == mesh)
    ok = tuple(np.shape(r.valid)) == n
    sx.check("valid-shape", ok)
    if ok:
        for idx in np.ndindex(*n):
            sx.check(f"valid-and{idx}", sx.eq(sx.truth(r.valid[idx]), sx.And(sx.truth(fv[idx]), sx.truth(gv[idx]))))
    sx.check("own-mask-object", r.valid is not f.valid and r.valid is not g.valid)
    sx.check("operands-valid-untouched", sx.And(*[sx.And(sx.eq(sx.truth(f.valid[idx]), sx.truth(fv[idx])), sx.eq(sx.truth(g.valid[idx]), sx.truth(gv[idx]))) for idx in np.ndindex(*n)]))


def h_compose(sx, cfg):
    """depth-2 compositions: masks combine as the AND of all field leaves"""
    df = lib.load()
    n = tuple(cfg["n"])
    nv = cfg["nvdim"]
    mesh, pmin, e = sym_mesh(sx, n, flip=False)
    f, fa, fv = _mk(sx, df, mesh, n, nv, "f")
    g, ga, gv = _mk(sx, df, mesh, n, nv, "g", labels=False)
    s, sa_, sv = _mk(sx, df, mesh, n, 1, "s", labels=False)
    exprs = {
        "(f+g)*s": (lambda: (f + g) * s, (fv, gv, sv)),
        "-(f*s)": (lambda: -(f * s), (fv, sv)),
        "abs(f-g).norm": (lambda: abs(f - g).norm, (fv, gv)),
        "(f.dot(g))*s": (lambda: f.dot(g) * s, (fv, gv, sv)),
        "(s*f).orientation": (lambda: (s * f).orientation, (fv, sv)),
        "(f<<s)": (lambda: f << s, (fv, sv)),
        "f.diff+g": (lambda: f.diff(mesh.region.dims[0], restrict2valid=False) + g, (fv, gv)),
        "(f*2).pad.sel": (lambda: (f * 2).pad({mesh.region.dims[0]: (1, 0)}, mode="edge").sel(**{mesh.region.dims[0]: (pmin[0] + 0.25 * e[0] / n[0], pmin[0] + e[0] - 0.25 * e[0] / n[0])}) + g, (fv, gv)),
    }
    fn, masks = exprs[cfg["expr"]]
    r = fn()
    sx.check("is-field", isinstance(r, df.Field) and tuple(np.shape(r.valid)) == n)
    for idx in np.ndindex(*n):
        sx.check(f"valid{idx}", sx.eq(sx.truth(r.valid[idx]), sx.And(*[sx.truth(m[idx]) for m in masks])))
    for name, fld, m in (("f", f, fv), ("g", g, gv), ("s", s, sv)):
        sx.check(f"operand-{name}-valid-untouched", sx.And(*[sx.eq(sx.truth(fld.valid[idx]), sx.truth(m[idx])) for idx in np.ndindex(*n)]))


def h_setter(sx, cfg):
    """setting validity never changes values, always yields a Boolean array of the mesh shape"""
    df = lib.load()
    n = tuple(cfg["n"])
    nd = len(n)
    nv = cfg["nvdim"]
    mesh, pmin, e = sym_mesh(sx, n, flip=False)
    arr = sx.real_array("v", (*n, nv))
    f = df.Field(mesh, nvdim=nv, value=arr)
    before = f.array
    how = cfg["how"]
    centre = {idx: [pmin[a] + (idx[a] + 0.5) * e[a] / n[a] for a in range(nd)] for idx in np.ndindex(*n)}
    if how == "array":
        bits = sx.bool_array("b", n)
        f.valid = bits
        want = {idx: sx.truth(bits[idx]) for idx in np.ndindex(*n)}
    elif how == "array_n1":
        bits = sx.bool_array("b", (*n, 1))
        f.valid = bits
        want = {idx: sx.truth(bits[idx + (0,)]) for idx in np.ndindex(*n)}
    elif how == "callable":
        thr = sx.real("thr")
        f.valid = lambda p: (p[0] if nd > 1 else p) > thr
        want = {idx: centre[idx][0] > thr for idx in np.ndindex(*n)}
    elif how == "true":
        f.valid = True
        want = {idx: True for idx in np.ndindex(*n)}
    elif how == "false":
        f.valid = False
        want = {idx: False for idx in np.ndindex(*n)}
    elif how == "none":
        f.valid = sx.bool_array("b", n)
        f.valid = None
        want = {idx: True for idx in np.ndindex(*n)}
    elif how == "ctor":
        bits = sx.bool_array("b", n)
        f = df.Field(mesh, nvdim=nv, value=arr, valid=bits)
        before = f.array
        want = {idx: sx.truth(bits[idx]) for idx in np.ndindex(*n)}
    elif how == "norm":
        f.valid = "norm"
        want = None
    elif how == "ctor-norm":
        f = df.Field(mesh, nvdim=nv, value=arr, valid="norm")
        before = f.array
        want = None
    sx.check("valid-shape", tuple(np.shape(f.valid)) == n)
    sx.check("valid-boolean", all(isinstance(x, (bool, np.bool_)) or (sx.sym and type(x).__name__ == "SymBool") for x in np.asarray(f.valid, dtype=object).flat)
             and (sx.sym or f.valid.dtype == np.bool_))
    sx.check("values-untouched", sx.eq(f.array, arr))
    if how not in ("ctor", "ctor-norm"):
        sx.check("array-object-kept", f.array is before)
    for idx in np.ndindex(*n):
        got = sx.truth(f.valid[idx])
        if want is not None:
            sx.check(f"valid{idx}", sx.eq(got, want[idx]))
        else:
            s2 = 0.0
            for k in range(nv):
                s2 = s2 + arr[idx + (k,)] * arr[idx + (k,)]
            hi = (1e-8 * (1 + 1e-5)) ** 2
            lo = (1e-8 * (1 - 1e-5)) ** 2
            sx.check(f"norm-marks-nonzero{idx}", sx.Implies(s2 > hi, got))
            sx.check(f"norm-marks-zero{idx}", sx.Implies(s2 < lo, sx.Not(got)))
    # wrong shapes are refused and leave the mask alone
    prev = np.array(f.valid, dtype=object, copy=True)
    for name, bad in (("wrong-shape", np.ones(tuple(k + 1 for k in n), dtype=bool)), ("string", "yes")):
        try:
            f.valid = bad
        except (ValueError, TypeError):
            sx.check(f"refused-{name}", True)
        else:
            sx.check(f"refused-{name}", False)
        sx.check(f"mask-kept-after-{name}", sx.And(*[sx.eq(sx.truth(x), sx.truth(y)) for x, y in zip(np.asarray(f.valid, dtype=object).flat, prev.flat)]))


def h_alias(sx, cfg):
    """a result's validity is its own: no shared memory with an operand's mask, writing it never alters the operand (native execution)"""
    df = lib.load()
    with sx.native():
        n = tuple(cfg["n"])
        nd = len(n)
        nv = cfg["nvdim"]
        rng = np.random.default_rng(5)
        mesh = df.Mesh(p1=(0.0,) * nd if nd > 1 else 0.0, p2=tuple(float(k) for k in n) if nd > 1 else float(n[0]), n=n if nd > 1 else n[0],
                       subregions={"s": df.Region(p1=(0.0,) * nd if nd > 1 else 0.0, p2=tuple([1.0] + [float(k) for k in n[1:]]) if nd > 1 else 1.0)})
        pat = rng.random(n) > 0.4
        pat.flat[0] = True
        pat.flat[-1] = False
        ops = {}
        for k, fn in _unary_ops(nv).items():
            ops["unary-" + k] = fn
        d0 = mesh.region.dims[0]
        ops.update({
            "diff": lambda f: f.diff(d0),
            "diff2-unrestricted": lambda f: f.diff(d0, order=2, restrict2valid=False),
            "pad": lambda f: f.pad({d0: (1, 1)}, mode="edge"),
            "sel-range": lambda f: f.sel(**{d0: (0.1, n[0] - 0.1)}),
            "getitem-name": lambda f: f["s"],
            "getitem-region": lambda f: f[f.mesh.region],
            "resample": lambda f: f.resample(tuple(n) if nd > 1 else n[0]),
            "copy-ctor": lambda f: df.Field(f.mesh, nvdim=f.nvdim, value=f.array, valid=f.valid),
        })
        if nd >= 2:
            ops["sel-plane"] = lambda f: f.sel(d0)
            ops["rotate90"] = lambda f: f.rotate90(mesh.region.dims[0], mesh.region.dims[1]) if nv == 1 else None
        for k, fn in _binary_ops(nv).items():
            ops["binary-" + k] = (lambda fn: (lambda f: fn(f, f * 1.0 + 1.5)))(fn)
        for name, fn in ops.items():
            f = df.Field(mesh, nvdim=nv, value=rng.random((*n, nv)) + 0.5, valid=pat.copy(), vdims=LABELS[nv])
            snapshot = f.valid.copy()
            try:
                r = fn(f)
            except Exception as ex:  # noqa: BLE001
                sx.check(f"{name}-runs", False, exc=f"{type(ex).__name__}: {ex}")
                continue
            if r is None or not isinstance(r, df.Field) or r is f:  # +f returns the field itself (documented)
                continue
            sx.check(f"{name}-mask-is-boolean", r.valid.dtype == np.bool_)
            sx.check(f"{name}-no-shared-memory", not np.shares_memory(r.valid, f.valid))
            r.valid[...] = ~r.valid
            sx.check(f"{name}-write-does-not-leak", bool(np.array_equal(f.valid, snapshot)))
            f.valid = snapshot.copy()
            r.valid = False
            sx.check(f"{name}-set-does-not-leak", bool(np.array_equal(f.valid, snapshot)))
        # the caller's own array is not adopted either, and non-Boolean masks are converted
        mine = pat.copy()
        f = df.Field(mesh, nvdim=nv, value=1.0 if nv == 1 else (1.0,) * nv, valid=mine)
        f.valid[...] = False
        sx.check("constructor-does-not-adopt-callers-array", bool(np.array_equal(mine, pat)))
        ints = pat.astype(int) * 2
        f = df.Field(mesh, nvdim=nv, value=1.0 if nv == 1 else (1.0,) * nv, valid=ints)
        sx.check("integer-mask-becomes-boolean", f.valid.dtype == np.bool_ and bool(np.array_equal(f.valid, pat)))
        f.valid = ints.astype(float)
        sx.check("float-mask-becomes-boolean", f.valid.dtype == np.bool_ and bool(np.array_equal(f.valid, pat)))


def tasks(tier):
    q = tier == "quick"
    t = []
    meshes = [((2, 2), 2), ((3,), 1), ((2, 1, 2), 3)] if q else [((2, 2), 2), ((3,), 1), ((2, 1, 2), 3), ((3, 2, 1), 1), ((2,), 3)]
    for n, nv in meshes:
        for op in _unary_ops(nv):
            t.append(dict(harness="h_unary", cfg=dict(n=list(n), nvdim=nv, op=op), limits=dict(timeout_ms=60000)))
        for op in _binary_ops(nv):
            if op in ("dot", "matmul", "cross", "and", "angle") and nv == 1 and op != "dot":
                continue
            t.append(dict(harness="h_binary", cfg=dict(n=list(n), nvdim=nv, op=op), limits=dict(timeout_ms=60000)))
            if op in ("add", "mul", "div", "sub") and nv > 1:
                t.append(dict(harness="h_binary", cfg=dict(n=list(n), nvdim=nv, op=op, scalar_other=True, swap=(op in ("mul", "add"))), limits=dict(timeout_ms=60000)))
    for n, nv, ax, order, restrict, bc in ([((3,), 1, 0, 1, True, ""), ((2, 3), 2, 1, 2, False, ""), ((3, 2), 1, 0, 1, True, "x")] if q else
                                           [((3,), 1, 0, 1, True, ""), ((4,), 2, 0, 2, True, ""), ((2, 3), 2, 1, 2, False, ""), ((3, 2), 1, 0, 1, True, "x"), ((2, 2, 3), 1, 2, 1, True, "")]):
        t.append(dict(harness="h_diff", cfg=dict(n=list(n), nvdim=nv, axis=ax, order=order, restrict=restrict, bc=bc), limits=dict(max_paths=5000, wall_budget=900)))
    for n, nv in ([((2, 2), 2)] if q else [((2, 2), 2), ((2, 1, 2), 3)]):
        for expr in ("(f+g)*s", "-(f*s)", "abs(f-g).norm", "(f.dot(g))*s", "(s*f).orientation", "(f<<s)", "f.diff+g", "(f*2).pad.sel"):
            if q and expr in ("-(f*s)", "(f<<s)"):
                continue
            t.append(dict(harness="h_compose", cfg=dict(n=list(n), nvdim=nv, expr=expr), limits=dict(timeout_ms=60000)))
    for n, nv in ([((2, 2), 2), ((3,), 1)] if q else [((2, 2), 2), ((3,), 1), ((2, 1, 2), 3)]):
        for how in ("array", "array_n1", "callable", "true", "false", "none", "ctor", "norm", "ctor-norm"):
            t.append(dict(harness="h_setter", cfg=dict(n=list(n), nvdim=nv, how=how), limits=dict(timeout_ms=60000, max_paths=3000)))
    for n, nv in ([((3, 2), 1), ((2, 2, 2), 3)] if q else [((3, 2), 1), ((2, 2, 2), 3), ((4,), 2), ((2, 3), 2)]):
        t.append(dict(harness="h_alias", cfg=dict(n=list(n), nvdim=nv)))
    # data-mapping operations (selection / extraction / padding / resampling): the C07 harnesses compare validity with the
    # same index map as the data; a reduced set is run here so that C08's evidence covers them too
    from . import C07

    for task in C07.tasks(tier):
        h = task["harness"]
        if h in ("h_plane", "h_range", "h_by_name", "h_by_region", "h_pad", "h_resample"):
            cfgd = task["cfg"]
            if q and (cfgd.get("nvdim", 1) > 1 or len(cfgd.get("n", [])) > 2):
                continue
            t.append(dict(harness=h.replace("h_", "h_sel_", 1), cfg=cfgd, limits=task.get("limits", {})))
    # file round trips: the C10 / C16 harnesses carry one symbolic validity bit per cell through the writers and readers
    from . import C10, C12, C16

    for mod, names in ((C10, {"h_roundtrip": "h_hdf5_roundtrip"}), (C16, {"h_roundtrip": "h_vtk_roundtrip", "h_grid": "h_vtk_grid"}), (C12, {"h_field": "h_rotate90"})):
        picked = [x for x in mod.tasks(tier) if x["harness"] in names]
        if q:
            picked = picked[::3]
        for x in picked:
            t.append(dict(harness=names[x["harness"]], cfg=x["cfg"], limits=x.get("limits", {})))
    return t
