"""Environment stubs: in-memory files + JSON (contract: what is dumped through the library's own encoder is what is loaded;
numbers exact, tuples/arrays become lists)."""
from __future__ import annotations

import contextlib

import numpy as np

from .scalars import Sym


class MemFS:
    """path -> stored object"""

    def __init__(self):
        self.files = {}


class _Handle:
    def __init__(self, fs, name, mode):
        self.fs, self.name, self.mode = fs, name, mode

    def __enter__(self):
        return self

    def __exit__(self, *a):
        return False


class FakePathModule:
    """stands in for the `pathlib` module inside discretisedfield.io: Path(x).open(mode=...) yields a handle on the MemFS"""

    def __init__(self, fs):
        self._fs = fs
        outer = self

        class Path:
            def __init__(self, p):
                self._p = str(p)

            def open(self, mode="rt", encoding=None):
                if "r" in mode and self._p not in outer._fs.files:
                    raise FileNotFoundError(self._p)
                return _Handle(outer._fs, self._p, mode)

            def __str__(self):
                return self._p

            def exists(self):
                return self._p in outer._fs.files

        self.Path = Path


def _encode(o, encoder):
    """what json.dump(o, cls=encoder) followed by json.load would give back, keeping symbolic numbers as they are"""
    if isinstance(o, Sym):
        return o
    if isinstance(o, (bool, np.bool_)):
        return bool(o)
    if isinstance(o, (int, float, str)) or o is None:
        return o
    if isinstance(o, (np.integer,)):
        return int(o)
    if isinstance(o, (np.floating,)):
        return float(o)
    if isinstance(o, dict):
        out = {}
        for k, v in o.items():
            if not isinstance(k, (str, int, float, bool)) and k is not None:
                raise TypeError(f"keys must be str, int, float, bool or None, not {type(k).__name__}")
            out[str(k) if not isinstance(k, str) else k] = _encode(v, encoder)
        return out
    if isinstance(o, (list, tuple)):
        return [_encode(v, encoder) for v in o]
    r = encoder.default(o)
    if r is None:
        raise TypeError(f"Object of type {type(o).__name__} is not JSON serializable")
    return _encode(r, encoder)


class FakeJSONModule:
    def __init__(self, real_json):
        self._real = real_json
        self.JSONEncoder = real_json.JSONEncoder

    def dump(self, obj, f, cls=None, **kw):
        enc = (cls or self._real.JSONEncoder)()
        f.fs.files[f.name] = _encode(obj, enc)

    def load(self, f, **kw):
        import copy

        return copy.deepcopy(f.fs.files[f.name])

    def __getattr__(self, name):
        return getattr(self._real, name)


@contextlib.contextmanager
def json_sidecar_stub(dio_module):
    """patch discretisedfield.io's `json` and `pathlib` with the in-memory versions for the duration of the block"""
    fs = MemFS()
    old_json, old_path = dio_module.json, dio_module.pathlib
    dio_module.json = FakeJSONModule(old_json)
    dio_module.pathlib = FakePathModule(fs)
    try:
        yield fs
    finally:
        dio_module.json, dio_module.pathlib = old_json, old_path
