"""Harness session (symbolic / concrete dual mode), path explorer, obligation
discharge, counterexample replay and per-path translator validation."""
from __future__ import annotations

import hashlib
import json
import math
import os
import random
import time
import traceback
from fractions import Fraction

import numpy as np
import z3

from . import core
from . import sarray as sa
from .core import BudgetExceeded, Ctx, PathAbort, SolverUnknown, Stats, Unsupported, fresh_check, val_to_py
from .scalars import Sym, SymBool, SymInt, SymReal, as_bool_term, as_real_term, ite as s_ite, mkbool, smax, smin

TOL = 1e-9


# --------------------------------------------------------------------------
# concrete condition trees (robust evaluation with a slack)
class C:
    """concrete condition; holds(slack): comparisons relaxed (slack>0) / tightened (slack<0)"""

    def __init__(self, kind, *args):
        self.kind = kind
        self.args = args

    def holds(self, slack=0.0):
        k, a = self.kind, self.args
        if k == "const":
            return bool(a[0])
        if k in ("eq", "le", "lt"):
            x, y, scale = a
            if isinstance(x, complex) or isinstance(y, complex):
                return k == "eq" and abs(x - y) <= max(slack, 0.0) * (abs(x) + abs(y) + scale)
            try:
                if math.isinf(x) or math.isinf(y) or math.isnan(x) or math.isnan(y):
                    # no tolerance arithmetic with non-finite values
                    return (x == y) if k == "eq" else ((x <= y) if k == "le" else (x < y))
            except TypeError:
                pass
            s = slack * (abs(x) + abs(y) + scale)
            if k == "eq":
                return abs(x - y) <= max(s, 0.0)
            if k == "le":
                return x <= y + s
            return x < y + s
        if k == "and":
            return all(c.holds(slack) for c in a)
        if k == "or":
            return any(c.holds(slack) for c in a)
        if k == "not":
            return not a[0].holds(-slack)
        raise ValueError(k)

    def __bool__(self):
        return self.holds(0.0)

    def __and__(self, o):
        return C("and", self, _c(o))

    __rand__ = __and__

    def __or__(self, o):
        return C("or", self, _c(o))

    __ror__ = __or__

    def __invert__(self):
        return C("not", self)

    def __repr__(self):
        return f"C({self.kind}, {self.args})"


def _c(x):
    if isinstance(x, C):
        return x
    if isinstance(x, (bool, np.bool_)):
        return C("const", bool(x))
    raise TypeError(f"not a condition: {type(x)} {x!r}")


def _isarr(x):
    return isinstance(x, (np.ndarray, list, tuple))


# --------------------------------------------------------------------------
class Violation(Exception):
    pass


class Session:
    """the `sx` object handed to harness functions"""

    def __init__(self, mode, cfg, ctx=None, inputs=None, known=None, scale=1.0, tol=TOL):
        self.mode = mode  # 'sym' | 'conc'
        self.cfg = cfg
        self.ctx = ctx
        self.given = inputs or {}
        self.inputs = {}  # name -> proxy (sym) / value (conc), declaration order
        self.kinds = {}
        self.scale = scale
        self.tol = tol
        self.checks = []  # (name, outcome, info)
        self.observed = []  # (name, value)
        self.known = known or []
        self.witness = None
        self.nchecks = 0

    sym = property(lambda self: self.mode == "sym")

    # -- inputs -----------------------------------------------------------
    def real(self, name, lo=None, hi=None):
        if self.sym:
            v = SymReal(z3.Real(name))
            self.ctx.inputs[name] = v.t
        else:
            v = float(self.given[name])
        self.inputs[name] = v
        self.kinds[name] = "real"
        if lo is not None:
            self.assume(self.ge(v, lo))
        if hi is not None:
            self.assume(self.le(v, hi))
        return v

    def int(self, name, lo=None, hi=None):
        if self.sym:
            v = SymInt(z3.Int(name))
            self.ctx.inputs[name] = v.t
        else:
            v = int(self.given[name])
        self.inputs[name] = v
        self.kinds[name] = "int"
        if lo is not None:
            self.assume(v >= lo)
        if hi is not None:
            self.assume(v <= hi)
        return v

    def bool(self, name):
        if self.sym:
            v = SymBool(z3.Bool(name))
            self.ctx.inputs[name] = v.t
        else:
            v = bool(self.given[name])
        self.inputs[name] = v
        self.kinds[name] = "bool"
        return v

    def reals(self, name, k, **kw):
        return [self.real(f"{name}{i}", **kw) for i in range(k)]

    def ints(self, name, k, **kw):
        return [self.int(f"{name}{i}", **kw) for i in range(k)]

    def real_array(self, name, shape):
        shape = tuple(shape)
        if self.sym:
            out = np.empty(shape, dtype=object)
        else:
            out = np.empty(shape, dtype=float)
        for idx in np.ndindex(*shape):
            out[idx] = self.real(name + "_" + "_".join(map(str, idx)))
        return out.view(sa.SymArray) if self.sym else out

    def bool_array(self, name, shape):
        shape = tuple(shape)
        out = np.empty(shape, dtype=object if self.sym else bool)
        for idx in np.ndindex(*shape):
            out[idx] = self.bool(name + "_" + "_".join(map(str, idx)))
        return out.view(sa.SymArray) if self.sym else out

    def arr(self, x):
        """list of scalars -> array usable by the library in either mode"""
        if self.sym and sa.has_sym(x):
            return sa.symarray(x)
        return np.asarray(x)

    # -- assumptions ----------------------------------------------------------
    def assume(self, cond):
        if self.sym:
            if isinstance(cond, (bool, np.bool_)):
                if not cond:
                    raise PathAbort("assumption false")
                return
            t = as_bool_term(cond)
            if not self.ctx.feasible(t):
                raise PathAbort("assumption infeasible")
            self.ctx.add_pc(t)
        else:
            if not _c(cond).holds(0.0):
                raise PathAbort("assumption not met by concrete inputs")

    # -- condition builders ----------------------------------------------------
    def _rel(self, kind, a, b, scale=None):
        if _isarr(a) or _isarr(b):
            A = np.asarray(sa.plain(sa.symify(a)) if self.sym else a, dtype=object)
            B = np.asarray(sa.plain(sa.symify(b)) if self.sym else b, dtype=object)
            A, B = np.broadcast_arrays(A, B)
            return self.And(*[self._rel(kind, x, y, scale) for x, y in zip(A.flat, B.flat)])
        if self.sym:
            if isinstance(a, (bool, np.bool_, SymBool)) or isinstance(b, (bool, np.bool_, SymBool)):
                if kind != "eq":
                    raise TypeError("order on booleans")
                return mkbool(as_bool_term(a) == as_bool_term(b))
            if kind == "eq":
                return a == b
            if kind == "le":
                return a <= b
            return a < b
        a = a.item() if isinstance(a, np.generic) else a
        b = b.item() if isinstance(b, np.generic) else b
        if isinstance(a, C) or isinstance(b, C):
            return C("const", _c(a).holds(0.0) == _c(b).holds(0.0))
        if isinstance(a, bool) or isinstance(b, bool):
            return C("const", bool(a) == bool(b))
        return C(kind, a, b, self.scale if scale is None else scale)

    def eq(self, a, b, scale=None):
        return self._rel("eq", a, b, scale)

    def ne(self, a, b, scale=None):
        return self.Not(self.eq(a, b, scale))

    def le(self, a, b, scale=None):
        return self._rel("le", a, b, scale)

    def lt(self, a, b, scale=None):
        return self._rel("lt", a, b, scale)

    def ge(self, a, b, scale=None):
        return self._rel("le", b, a, scale)

    def gt(self, a, b, scale=None):
        return self._rel("lt", b, a, scale)

    def And(self, *cs):
        cs = [c for c in cs]
        if self.sym:
            ts = []
            for c in cs:
                if isinstance(c, (bool, np.bool_)):
                    if not c:
                        return False
                    continue
                ts.append(as_bool_term(c))
            if not ts:
                return True
            return mkbool(z3.And(*ts)) if len(ts) > 1 else SymBool(ts[0])
        return C("and", *[_c(c) for c in cs])

    def Or(self, *cs):
        if self.sym:
            ts = []
            for c in cs:
                if isinstance(c, (bool, np.bool_)):
                    if c:
                        return True
                    continue
                ts.append(as_bool_term(c))
            if not ts:
                return False
            return mkbool(z3.Or(*ts)) if len(ts) > 1 else SymBool(ts[0])
        return C("or", *[_c(c) for c in cs])

    def Not(self, c):
        if self.sym:
            if isinstance(c, (bool, np.bool_)):
                return not c
            return mkbool(z3.Not(as_bool_term(c)))
        return C("not", _c(c))

    def Implies(self, a, b):
        return self.Or(self.Not(a), b)

    def Iff(self, a, b):
        return self.And(self.Implies(a, b), self.Implies(b, a))

    def ite(self, c, a, b):
        if self.sym:
            return s_ite(c, a, b)
        return a if _c(c).holds(0.0) else b

    def min(self, a, b):
        return smin(a, b) if self.sym else min(a, b)

    def max(self, a, b):
        return smax(a, b) if self.sym else max(a, b)

    def abs(self, a):
        return abs(a)

    def floor(self, a):
        if isinstance(a, Sym):
            return a.__floor__()
        return math.floor(a)

    def sqrt(self, a):
        if isinstance(a, Sym):
            return a.sqrt()
        return math.sqrt(a)

    def truth(self, b):
        """boolean value (SymBool / bool) as a condition"""
        if self.sym:
            return b if isinstance(b, (SymBool, bool)) else bool(b)
        return bool(b)

    def decide(self, cond):
        """python bool for a condition: forks in symbolic mode"""
        if self.sym:
            return bool(cond) if not isinstance(cond, (bool, np.bool_)) else bool(cond)
        return _c(cond).holds(0.0)

    def uf(self, name, *args):
        """uninterpreted real function of real arguments (sym) / a fixed nonlinear stand-in (conc)"""
        if self.sym:
            from .scalars import uf as _uf
            return SymReal(_uf(name, *[as_real_term(a) for a in args]))
        import zlib
        h = zlib.crc32(name.encode()) % 97
        acc = 0.31 * h
        for i, a in enumerate(args):
            acc += (1.37 + 0.41 * i) * float(a)
        return math.sin(acc) + 0.01 * h

    def native(self):
        """context manager: run a block with the engine switched off (concrete structural sub-checks: dtypes, aliasing)"""
        import contextlib

        @contextlib.contextmanager
        def cm():
            prev = core.ctx()
            core.set_ctx(None)
            try:
                yield
            finally:
                core.set_ctx(prev)

        return cm()

    def fresh_real(self, name):
        """auxiliary existential for oracles (sym: fresh constant; conc: must not be used)"""
        if not self.sym:
            raise RuntimeError("fresh_real in concrete mode")
        return SymReal(self.ctx.fresh(name))

    # -- observation / obligations ------------------------------------------------
    def observe(self, name, value):
        self.observed.append((name, value))

    def check(self, name, cond, **info):
        """obligation: cond must hold for every input on this path"""
        self.nchecks += 1
        if not self.sym:
            ok = _c(cond).holds(self.tol)
            self.checks.append((name, "ok" if ok else "violated", info))
            return ok
        ctx = self.ctx
        if isinstance(cond, (bool, np.bool_)):
            t = z3.BoolVal(bool(cond))
        else:
            t = as_bool_term(cond)
        if self.witness is None:
            self.witness = True
        neg = z3.simplify(z3.Not(t))
        rec = dict(name=name, info=info)
        if z3.is_false(neg):
            self.checks.append((name, "discharged", rec))
            return True
        # known findings restrict what counts as a new violation
        kterms = []
        for kf in self.known:
            if kf.get("obligation") and not name.startswith(kf["obligation"]):
                continue
            kt = self._known_pred(kf)
            if kt is not None:
                kterms.append((kf, kt))
        excl = [z3.Not(kt) for _, kt in kterms]
        rel = ctx.relevant(neg, *excl)
        r, m = fresh_check(rel + [neg] + excl, ctx.timeout_ms, want_model=True, stats=ctx.stats)
        if r == "sat":
            # complete model over the whole pc (inputs outside the slice need consistent values)
            r, m = fresh_check(ctx.pc + [neg] + excl, ctx.timeout_ms, want_model=True, stats=ctx.stats)
        if r == "unknown":
            self.checks.append((name, "unknown", rec))
            return False
        if r == "sat":
            rec["model"] = self._model_inputs(m)
            rec["pc_len"] = len(ctx.pc)
            rec["alt_models"] = self._alt_models(ctx.pc + [neg] + excl, rec["model"])
            self.checks.append((name, "sat", rec))
        else:
            self.checks.append((name, "discharged", rec))
        for kf, kt in kterms:
            r2, m2 = fresh_check(ctx.pc + [neg, kt], ctx.timeout_ms, want_model=True, stats=ctx.stats)
            if r2 == "sat":
                self.checks.append((name, "known", dict(name=name, info=info, known=kf["id"], model=self._model_inputs(m2))))
            elif r2 == "unknown":
                self.checks.append((name, "unknown", rec))
        return r == "unsat"

    def _known_pred(self, kf):
        ns = dict(self.inputs)
        ns["cfg"] = self.cfg
        ns["And"] = self.And
        ns["Or"] = self.Or
        ns["Not"] = self.Not
        try:
            v = eval(kf["predicate"], {"__builtins__": {}}, ns)  # noqa: S307
        except (NameError, KeyError, TypeError):
            return None
        if isinstance(v, (bool, np.bool_)):
            return z3.BoolVal(bool(v)) if v else None
        return as_bool_term(v)

    def _model_inputs(self, m):
        out = {}
        for name, t in self.ctx.inputs.items():
            v = m.eval(t, model_completion=True)
            pv = val_to_py(v)
            if isinstance(pv, Fraction):
                pv = [pv.numerator, pv.denominator]
            out[name] = pv
        return out

    def _alt_models(self, assertions, first, k=2):
        """'nice' models: real inputs rounded to few significant digits while the query stays sat.

        z3 likes to return models on the very edge of a constraint (e.g. exactly at a tolerance threshold); those do
        not survive binary64 rounding in the native replay.  Rounded values move off the edge.  Two variants are
        produced: rounding away from zero first, and towards zero first."""
        out = []
        for away in (True, False):
            pins = []
            tmo = min(self.ctx.timeout_ms, 4000)
            names = [n for n in self.ctx.inputs if self.kinds.get(n) == "real"]
            budget = 60
            for name in names:
                t = self.ctx.inputs[name]
                v = first[name]
                fv = Fraction(v[0], v[1]) if isinstance(v, list) else Fraction(v)
                chosen = None
                for cand in _nice_candidates(fv, away):
                    if budget <= 0:
                        break
                    budget -= 1
                    r, _ = fresh_check(assertions + pins + [t == z3.RealVal(cand)], tmo, stats=self.ctx.stats)
                    if r == "sat":
                        chosen = cand
                        break
                if chosen is None:
                    chosen = fv
                pins.append(t == z3.RealVal(chosen))
            r, m = fresh_check(assertions + pins, tmo, want_model=True, stats=self.ctx.stats)
            if r == "sat":
                mi = self._model_inputs(m)
                if mi not in out:
                    out.append(mi)
        return out


def _nice_candidates(fv, away=True):
    """few-significant-digit neighbours of a rational, coarsest first; `away`: prefer the one farther from zero"""
    if fv == 0:
        return [Fraction(0)]
    out = []
    x = float(fv)
    mag = math.floor(math.log10(abs(x)))
    for digits in (1, 2, 3):
        q = Fraction(10) ** (mag - digits + 1)
        lo = (fv // q) * q
        pair = [lo, lo + q]
        pair.sort(key=lambda c: -abs(c) if away else abs(c))
        for c in pair:
            if c not in out:
                out.append(c)
    return out[:6]


def inputs_to_py(model_inputs):
    out = {}
    for k, v in model_inputs.items():
        if isinstance(v, list):
            out[k] = float(Fraction(v[0], v[1]))
        else:
            out[k] = v
    return out


# --------------------------------------------------------------------------
class TaskResult:
    def __init__(self, prop, harness, cfg):
        self.prop = prop
        self.harness = harness
        self.cfg = cfg
        self.paths = 0
        self.aborted = 0
        self.obligations = 0
        self.discharged = 0
        self.unknown = 0
        self.violations = []  # dicts
        self.known_seen = []  # dicts
        self.nonrepro = []
        self.inconclusive = []  # strings
        self.errors = []  # strings
        self.validated = 0
        self.validation_mismatch = []
        self.stats = Stats()
        self.samples = []
        self.functions = set()
        self.wall = 0.0
        self.checks_reached = 0
        self.oblig_names = {}

    def to_dict(self):
        d = dict(self.__dict__)
        d["stats"] = self.stats.as_dict()
        d["functions"] = sorted(self.functions)
        return d


def run_concrete(fn, cfg, inputs, known=None, tol=TOL):
    """native execution of a harness with concrete inputs; returns Session"""
    prev = core.ctx()
    core.set_ctx(None)
    try:
        sx = Session("conc", cfg, inputs=inputs, known=known, tol=tol)
        try:
            fn(sx, cfg)
            sx.exc = None
        except PathAbort as e:
            sx.exc = ("abort", str(e))
        except Exception as e:  # noqa: BLE001
            sx.exc = ("exception", f"{type(e).__name__}: {e}", traceback.format_exc(limit=6))
        return sx
    finally:
        core.set_ctx(prev)


def _profile_collector(funcs, root):
    def prof(frame, event, arg):
        if event == "call":
            co = frame.f_code
            fn = co.co_filename
            if fn.startswith(root) and "/tests/" not in fn:
                funcs.add(f"{os.path.relpath(fn, root)}:{co.co_qualname}")

    return prof


def explore(prop, harness_name, fn, cfg, known=None, max_paths=4000, max_branches=400, timeout_ms=core.DEFAULT_TIMEOUT_MS,
            wall_budget=600.0, validate=2, seed=0, repo_root="/repo", max_violations=3):
    """explore all feasible paths of harness `fn` under configuration cfg"""
    import sys

    res = TaskResult(prop, harness_name, cfg)
    t_start = time.time()
    cache = {}
    prefix = []
    rng = random.Random(seed * 7919 + int(hashlib.md5(repr((harness_name, cfg)).encode()).hexdigest()[:8], 16))
    validate_left = validate
    stop = False
    first_profile = True
    while prefix is not None and not stop:
        if res.paths + res.aborted >= max_paths:
            res.inconclusive.append(f"path budget {max_paths} exhausted")
            break
        if time.time() - t_start > wall_budget:
            res.inconclusive.append(f"wall budget {wall_budget}s exhausted")
            break
        ctx = Ctx(prefix, res.stats, cache, max_branches=max_branches, timeout_ms=timeout_ms)
        core.set_ctx(ctx)
        sx = Session("sym", cfg, ctx=ctx, known=known)
        outcome = "ok"
        if first_profile:
            sys.setprofile(_profile_collector(res.functions, repo_root.rstrip("/") + "/"))
        try:
            fn(sx, cfg)
        except PathAbort:
            outcome = "abort"
        except (Unsupported, SolverUnknown, BudgetExceeded) as e:
            outcome = "inconclusive"
            res.inconclusive.append(f"{type(e).__name__}: {e} [{_where_tb(e)}]")
            stop = True
        except RecursionError as e:
            outcome = "inconclusive"
            res.inconclusive.append(f"RecursionError {e}")
            stop = True
        except Exception as e:  # noqa: BLE001
            outcome = "error"
            res.errors.append(f"harness raised {type(e).__name__}: {e}\n{traceback.format_exc(limit=8)}")
            stop = True
        finally:
            if first_profile:
                sys.setprofile(None)
                first_profile = False
        core.set_ctx(None)
        if outcome == "ok":
            try:
                bad = ctx.check_side_conditions()
            except SolverUnknown as e:
                bad = None
                res.inconclusive.append(f"side condition unknown: {e}")
            if bad is not None:
                res.inconclusive.append(f"possible division by zero on a path: {str(bad)[:160]}")
                stop = True
        if outcome == "abort":
            res.aborted += 1
        else:
            res.paths += 1
        res.checks_reached += sx.nchecks
        # collect obligations
        for name, status, rec in sx.checks:
            if status == "known":
                _handle_known(res, fn, cfg, rec, known)
                continue
            res.obligations += 1
            gkey = _group_key(name)
            res.oblig_names[gkey] = res.oblig_names.get(gkey, 0) + 1
            if status == "discharged":
                res.discharged += 1
            elif status == "unknown":
                res.unknown += 1
                res.inconclusive.append(f"solver unknown on obligation {name}")
            elif status == "sat":
                _handle_sat(res, fn, cfg, name, rec, known)
                if len(res.violations) >= max_violations:
                    stop = True
        # translator validation on this path
        if outcome == "ok" and validate_left > 0 and sx.nchecks > 0 and not res.violations:
            try:
                done = _validate_path(res, fn, cfg, ctx, sx, rng, known)
            except SolverUnknown:
                done = False
            if done:
                validate_left -= 1
        if len(res.samples) < 2 and outcome == "ok" and sx.nchecks > 0:
            r, m = fresh_check(ctx.pc, timeout_ms, want_model=True, stats=res.stats)
            if r == "sat":
                res.samples.append(
                    dict(harness=harness_name, cfg=_jsonable(cfg), path_decisions=len(ctx.decisions), pc_conjuncts=len(ctx.pc),
                         witness_inputs={k: str(v) for k, v in list(sx._model_inputs(m).items())[:12]},
                         obligations=[n for n, _, _ in sx.checks][:8]))
        prefix = ctx.next_prefix()
    res.wall = time.time() - t_start
    if res.checks_reached == 0 and not res.inconclusive and not res.errors:
        res.errors.append("vacuous harness: no obligation reached on any path")
    return res


def _group_key(name):
    """obligation group = the name without its index suffixes: 'value(0, 1)[2]' -> 'value'"""
    import re

    return re.split(r"[\(\[]", name, maxsplit=1)[0]


def _where_tb(e):
    tb = traceback.extract_tb(e.__traceback__)
    frames = [f"{os.path.basename(f.filename)}:{f.lineno}" for f in tb[-4:]]
    return " < ".join(reversed(frames))


def _jsonable(x):
    try:
        json.dumps(x)
        return x
    except TypeError:
        return repr(x)


def _replays(fn, cfg, name, model, known):
    sx = run_concrete(fn, cfg, inputs_to_py(model), known)
    hit = [c for c in sx.checks if c[0] == name and c[1] == "violated"]
    return bool(hit), sx


def _handle_sat(res, fn, cfg, name, rec, known):
    models = rec.get("alt_models", []) + [rec["model"]]
    for mdl in models:
        ok, sxc = _replays(fn, cfg, name, mdl, known)
        if ok:
            res.violations.append(dict(obligation=name, cfg=_jsonable(cfg), inputs=mdl, harness=res.harness, prop=res.prop,
                                       info=_jsonable(rec.get("info"))))
            return
    res.nonrepro.append(dict(obligation=name, cfg=_jsonable(cfg), inputs=models[0], harness=res.harness,
                             native=str(getattr(sxc, "exc", None))[:300],
                             native_checks=[(c[0], c[1]) for c in sxc.checks][:10]))
    res.inconclusive.append(f"counterexample for {name} did not reproduce natively")


def _handle_known(res, fn, cfg, rec, known):
    kid = rec["known"]
    if any(k["id"] == kid for k in res.known_seen):
        return
    ok, _ = _replays(fn, cfg, rec["name"], rec["model"], known)
    if ok:
        res.known_seen.append(dict(id=kid, obligation=rec["name"], cfg=_jsonable(cfg), inputs=rec["model"]))


def _validate_path(res, fn, cfg, ctx, sx, rng, known):
    """evaluate the symbolic run under a concrete assignment and compare with native"""
    pins = []
    names = [n for n in ctx.inputs if sx.kinds.get(n) == "real"]
    rng.shuffle(names)
    base = list(ctx.pc)
    for n in names[:10]:
        # dyadic and decimal candidates: decimals (0.1, 0.3, ...) are not exactly representable in binary64, so the native
        # run also exercises the rounding behaviour the REAL theory abstracts from
        den = rng.choice((8, 10, 10, 5, 1000))
        val = Fraction(rng.randint(-4 * den, 4 * den), den)
        cand = ctx.inputs[n] == z3.RealVal(val)
        r, _ = fresh_check(base + pins + [cand], 3000, stats=res.stats)
        if r == "sat":
            pins.append(cand)
    r, m = fresh_check(base + pins, ctx.timeout_ms, want_model=True, stats=res.stats)
    if r != "sat":
        return False
    model = sx._model_inputs(m)
    sxc = run_concrete(fn, cfg, inputs_to_py(model), known)
    if sxc.exc is not None:
        if sxc.exc[0] == "abort":
            return False
        res.validation_mismatch.append(dict(kind="native exception", detail=sxc.exc[1], inputs=model, cfg=_jsonable(cfg)))
        return True
    bad = [c for c in sxc.checks if c[1] == "violated"]
    sym_names = [c[0] for c in sx.checks if c[1] != "known"]
    symset = set(sym_names)
    # checks that only exist natively (dtype / bit-pattern statements guarded by `if not sx.sym`) are allowed on top
    conc_names = [c[0] for c in sxc.checks if c[0] in symset]
    if sym_names != conc_names:
        # different path natively (rounding at a branch): not comparable
        return False
    if bad:
        # the real code, run natively on a solver-generated witness of this path, violates an obligation that holds over the
        # reals: a genuine violation of the property on a concrete input (typically a binary64 rounding effect).  Reported as
        # a violation (it replays by construction), marked with how it was found.
        res.violations.append(dict(obligation=bad[0][0], cfg=_jsonable(cfg), inputs=model, harness=res.harness, prop=res.prop,
                                   info=dict(found_by="native replay of a solver-generated path witness (differential validation); "
                                                      "the obligation is discharged over the reals, the violation is a floating-point effect",
                                             all_violated=[b[0] for b in bad][:8])))
        return True
    # observed values
    if len(sx.observed) == len(sxc.observed):
        for (n1, v1), (n2, v2) in zip(sx.observed, sxc.observed):
            if not _obs_equal(m, v1, v2):
                res.validation_mismatch.append(dict(kind="observed value differs", detail=n1, inputs=model, cfg=_jsonable(cfg)))
                return True
    res.validated += 1
    return True


def _eval_sym(m, v):
    if isinstance(v, (SymReal, SymInt)):
        return float(val_to_py(m.eval(v.t, model_completion=True)))
    if isinstance(v, SymBool):
        return bool(val_to_py(m.eval(v.t, model_completion=True)))
    if isinstance(v, np.generic):
        return v.item()
    return v


def _obs_equal(m, a, b):
    if isinstance(a, np.ndarray) or isinstance(b, np.ndarray) or isinstance(a, (list, tuple)):
        A = np.asarray(sa.plain(a) if isinstance(a, np.ndarray) else a, dtype=object)
        B = np.asarray(b, dtype=object)
        if A.shape != B.shape:
            return False
        return all(_obs_equal(m, x, y) for x, y in zip(A.flat, B.flat))
    try:
        x = _eval_sym(m, a)
    except Exception:  # noqa: BLE001
        return True  # not evaluable (UF): skip
    y = b.item() if isinstance(b, np.generic) else b
    if isinstance(x, (bool, str)) or isinstance(y, (bool, str)) or x is None or y is None:
        return x == y
    try:
        return abs(x - y) <= 1e-9 * (1.0 + abs(x) + abs(y))
    except TypeError:
        return x == y
