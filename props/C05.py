"""C05 -- grad, div, curl and Laplacian are the textbook combinations of the derivatives (DESIGN 2/C05)."""
from __future__ import annotations

import itertools

import numpy as np

from symx import lib
from symx.sarray import symarray

from .common import DIMSETS, sym_mesh
from .geom import qturn, rot_index

META = dict(
    bounds=dict(
        quick=dict(also="axis names that are the default component labels in another order; permuted mappings through laplace and rotate90; more components than axes with a mapping naming one axis twice",
                   ndim="1..3", n="3 per axis (polynomials), 3 per axis (identities)", mapping="every permutation of components onto axes (<=6)",
                   dims="default and renamed", labels="default and custom", periodic="identities with one periodic direction"),
        thorough=dict(ndim="1..4 (grad/div/laplace), 3 (curl)", n="mixes of 3 and 4", mapping="every permutation", dims="default and renamed",
                      labels="default and custom", periodic="identities with periodic directions"),
    ),
    stubs=[],
    assumptions=["REAL theory", "fully valid meshes", "exact quarter turns (cos/sin of k*pi/2 are 0, +-1)"],
    outside=["partially valid meshes (C04 covers the per-line derivative)", "n > 4", "binary64 rounding"],
)

CUSTOM = {1: ["s"], 2: ["a", "b"], 3: ["mx", "my", "mz"], 4: ["p", "q", "r", "t"]}


def _monomials(nd):
    """exponent vectors of total degree <= 2"""
    out = [tuple([0] * nd)]
    for a in range(nd):
        ev = [0] * nd
        ev[a] = 1
        out.append(tuple(ev))
    for a in range(nd):
        for b in range(a, nd):
            ev = [0] * nd
            ev[a] += 1
            ev[b] += 1
            out.append(tuple(ev))
    return out


class Poly:
    def __init__(self, sx, tag, nd):
        self.mon = _monomials(nd)
        self.co = [sx.real(f"{tag}k{i}") for i in range(len(self.mon))]
        self.nd = nd

    def at(self, x):
        acc = 0.0
        for c, ev in zip(self.co, self.mon):
            t = c
            for a in range(self.nd):
                for _ in range(ev[a]):
                    t = t * x[a]
            acc = acc + t
        return acc

    def d(self, x, a):
        acc = 0.0
        for c, ev in zip(self.co, self.mon):
            if ev[a] == 0:
                continue
            t = c * ev[a]
            ev2 = list(ev)
            ev2[a] -= 1
            for b in range(self.nd):
                for _ in range(ev2[b]):
                    t = t * x[b]
            acc = acc + t
        return acc

    def d2(self, a):
        acc = 0.0
        for c, ev in zip(self.co, self.mon):
            if ev[a] == 2:
                acc = acc + 2 * c
        return acc


def _centres(pmin, e, n):
    return {idx: [pmin[a] + (idx[a] + 0.5) * e[a] / n[a] for a in range(len(n))] for idx in np.ndindex(*n)}


def _vec_setup(sx, cfg, nd, nv, dims):
    labels = CUSTOM[nv] if cfg.get("labels") == "custom" else (["x", "y", "z"][:nv] if nv <= 3 else [f"v{i}" for i in range(nv)])
    perm = cfg.get("perm") or list(range(nv))
    mapping = {labels[c]: dims[perm[c]] for c in range(nv)}  # component c lives along axis perm[c]
    return labels, perm, mapping


def _comp_by_axis(res, dims):
    """component index of `res` that its own mapping pairs with each spatial axis"""
    out = {}
    for a, d in enumerate(dims):
        lab = res._r_dim_mapping.get(d)
        out[a] = None if lab is None else res.vdims.index(lab)
    return out


def h_poly_scalar(sx, cfg):
    """scalar quadratic polynomial: grad and Laplacian equal the analytic derivatives at every cell centre"""
    df = lib.load()
    n = tuple(cfg["n"])
    nd = len(n)
    dims = DIMSETS[cfg.get("dims", "default")][nd]
    mesh, pmin, e = sym_mesh(sx, n, dims=dims, flip=False)
    cen = _centres(pmin, e, n)
    P = Poly(sx, "P", nd)
    data = np.empty((*n, 1), dtype=object)
    for idx in np.ndindex(*n):
        data[idx + (0,)] = P.at(cen[idx])
    f = df.Field(mesh, nvdim=1, value=symarray(data) if sx.sym else data.astype(float), unit="A")
    g = f.grad
    sx.check("grad-meta", g.nvdim == nd and g.mesh == mesh and tuple(np.shape(g.array)) == (*n, nd))
    if nd > 1:
        cba = _comp_by_axis(g, dims)
        sx.check("grad-mapping-complete", all(cba[a] is not None for a in range(nd)) and sorted(cba.values()) == list(range(nd)))
    else:
        cba = {0: 0}
    for idx in np.ndindex(*n):
        for a in range(nd):
            if cba[a] is None:
                continue
            sx.check(f"grad{idx}[{a}]", sx.eq(g.array[idx + (cba[a],)], P.d(cen[idx], a)))
    lap = f.laplace
    sx.check("laplace-meta", lap.nvdim == 1 and lap.mesh == mesh)
    want = 0.0
    for a in range(nd):
        want = want + P.d2(a)
    for idx in np.ndindex(*n):
        sx.check(f"laplace{idx}", sx.eq(lap.array[idx + (0,)], want))
    # history: values overwritten in place through the array returned by f.array; the operators follow the current values
    P2 = Poly(sx, "R", nd)
    for idx in np.ndindex(*n):
        f.array[idx + (0,)] = P2.at(cen[idx])
    g2 = f.grad
    lap2 = f.laplace
    want2 = 0.0
    for a in range(nd):
        want2 = want2 + P2.d2(a)
    for idx in np.ndindex(*n):
        for a in range(nd):
            if cba[a] is not None:
                sx.check(f"grad-after-in-place-write{idx}[{a}]", sx.eq(g2.array[idx + (cba[a],)], P2.d(cen[idx], a)))
        sx.check(f"laplace-after-in-place-write{idx}", sx.eq(lap2.array[idx + (0,)], want2))
    # div(grad f) goes through the mapping of the gradient: equals the Laplacian's analytic value as well? No: the
    # composed first differences are a wider stencil and only exact for the interior; not part of the statement.


def h_poly_vector(sx, cfg):
    """vector field with quadratic polynomial components and a permuted component-to-axis mapping: div, curl, Laplacian"""
    df = lib.load()
    n = tuple(cfg["n"])
    nd = len(n)
    nv = cfg.get("nvdim", nd)
    dims = DIMSETS[cfg.get("dims", "default")][nd]
    mesh, pmin, e = sym_mesh(sx, n, dims=dims, flip=False)
    cen = _centres(pmin, e, n)
    labels, perm, mapping = _vec_setup(sx, cfg, nd, nv, dims) if nv == nd else (CUSTOM[nv], None, {})
    P = [Poly(sx, f"P{c}", nd) for c in range(nv)]
    data = np.empty((*n, nv), dtype=object)
    for idx in np.ndindex(*n):
        for c in range(nv):
            data[idx + (c,)] = P[c].at(cen[idx])
    if cfg.get("key_order") and mapping:
        # the same mapping written down in another key order (dict order is not component order)
        keys = list(mapping)
        r = cfg["key_order"] % len(keys)
        mapping = {k: mapping[k] for k in keys[r:] + keys[:r][::-1]}
    f = df.Field(mesh, nvdim=nv, value=symarray(data) if sx.sym else data.astype(float), vdims=labels, vdim_mapping=mapping if not cfg.get("late_mapping") else None)
    if cfg.get("late_mapping"):
        f.vdim_mapping = mapping
    if cfg.get("rename"):
        # history: relabel the components afterwards; only the spelling changes, the pairing with the axes must not
        f.vdims = [f"w{c}" for c in range(nv)]
        sx.check("rename-keeps-pairing", {f"w{c}": dims[perm[c]] for c in range(nv)} == dict(f.vdim_mapping))
    what = cfg["what"]
    if what == "div":
        r = f.div
        sx.check("div-meta", r.nvdim == 1 and r.mesh == mesh)
        for idx in np.ndindex(*n):
            want = 0.0
            for c in range(nv):
                want = want + P[c].d(cen[idx], perm[c])
            sx.check(f"div{idx}", sx.eq(r.array[idx + (0,)], want))
    elif what == "curl":
        r = f.curl
        sx.check("curl-meta", r.nvdim == 3 and r.mesh == mesh)
        cba = _comp_by_axis(r, dims)
        sx.check("curl-mapping-complete", sorted(v for v in cba.values() if v is not None) == [0, 1, 2])
        inv = {perm[c]: c for c in range(3)}  # axis -> component of f along it

        def dd(ax_comp, ax_dir, idx):
            return P[inv[ax_comp]].d(cen[idx], ax_dir)

        for idx in np.ndindex(*n):
            want = [dd(2, 1, idx) - dd(1, 2, idx), dd(0, 2, idx) - dd(2, 0, idx), dd(1, 0, idx) - dd(0, 1, idx)]
            for a in range(3):
                if cba[a] is not None:
                    sx.check(f"curl{idx}[{a}]", sx.eq(r.array[idx + (cba[a],)], want[a]))
    elif what == "laplace":
        r = f.laplace
        sx.check("laplace-meta", r.nvdim == nv and r.mesh == mesh)
        for c in range(nv):
            want = 0.0
            for a in range(nd):
                want = want + P[c].d2(a)
            for idx in np.ndindex(*n):
                sx.check(f"laplace{idx}[{c}]", sx.eq(r.array[idx + (c,)], want))
        if perm is not None:
            # the result's own mapping pairs each axis with the Laplacian of the operand's component along that axis
            cba = _comp_by_axis(r, dims)
            inv = {perm[c]: c for c in range(nv)}
            sx.check("laplace-mapping-follows-operand", all(cba[a] == inv[a] for a in range(nd)), got=str(dict(r.vdim_mapping)))


def h_identity(sx, cfg):
    """curl(grad f) = 0 and div(curl v) = 0 for free cell values on fully valid meshes"""
    df = lib.load()
    n = tuple(cfg["n"])
    dims = DIMSETS[cfg.get("dims", "default")][3]
    bc = "".join(dims[a] for a in cfg.get("periodic", []))
    mesh, pmin, e = sym_mesh(sx, n, dims=dims, flip=False, bc=bc)
    if cfg["what"] == "curlgrad":
        vals = sx.real_array("v", (*n, 1))
        f = df.Field(mesh, nvdim=1, value=vals)
        r = f.grad.curl
        sx.check("meta", r.nvdim == 3 and r.mesh == mesh)
        for idx in np.ndindex(*n):
            for c in range(3):
                sx.check(f"curl-grad{idx}[{c}]", sx.eq(r.array[idx + (c,)], 0.0))
    else:
        labels, perm, mapping = _vec_setup(sx, cfg, 3, 3, dims)
        vals = sx.real_array("v", (*n, 3))
        f = df.Field(mesh, nvdim=3, value=vals, vdims=labels, vdim_mapping=mapping)
        r = f.curl.div
        sx.check("meta", r.nvdim == 1 and r.mesh == mesh)
        for idx in np.ndindex(*n):
            sx.check(f"div-curl{idx}", sx.eq(r.array[idx + (0,)], 0.0))


def h_rotate(sx, cfg):
    """each operator commutes with quarter-turn rotations of the field: op(rot(f)) == rot(op(f))"""
    df = lib.load()
    n = tuple(cfg["n"])
    nd = len(n)
    dims = DIMSETS["default"][nd]
    mesh, pmin, e = sym_mesh(sx, n, dims=dims, flip=False)
    what = cfg["what"]
    a, b, k = cfg["ax1"], cfg["ax2"], cfg["k"]
    if what in ("grad", "laplace_s"):
        vals = sx.real_array("v", (*n, 1))
        f = df.Field(mesh, nvdim=1, value=vals)
    else:
        vals = sx.real_array("v", (*n, nd))
        if cfg.get("perm"):
            labels, perm, mapping = _vec_setup(sx, dict(cfg, labels="custom"), nd, nd, dims)
            f = df.Field(mesh, nvdim=nd, value=vals, vdims=labels, vdim_mapping=mapping)
        else:
            f = df.Field(mesh, nvdim=nd, value=vals)
    op = {"grad": lambda x: x.grad, "laplace_s": lambda x: x.laplace, "laplace_v": lambda x: x.laplace, "div": lambda x: x.div, "curl": lambda x: x.curl}[what]
    lhs = op(f.rotate90(dims[a], dims[b], k=k))
    rhs = op(f).rotate90(dims[a], dims[b], k=k)
    sx.check("same-mesh-n", tuple(int(x) for x in lhs.mesh.n) == tuple(int(x) for x in rhs.mesh.n) and lhs.nvdim == rhs.nvdim)
    sx.check("same-region", sx.And(sx.eq(list(lhs.mesh.region.pmin), list(rhs.mesh.region.pmin)), sx.eq(list(lhs.mesh.region.pmax), list(rhs.mesh.region.pmax))))
    sx.check("same-labels", lhs.vdims == rhs.vdims and lhs.vdim_mapping == rhs.vdim_mapping)
    if tuple(np.shape(lhs.array)) == tuple(np.shape(rhs.array)):
        for idx in np.ndindex(*np.shape(lhs.array)):
            sx.check(f"commutes{idx}", sx.eq(lhs.array[idx], rhs.array[idx]))
    else:
        sx.check("same-shape", False)


def h_refuse(sx, cfg):
    df = lib.load()
    mesh3, pmin, e = sym_mesh(sx, (2, 2, 2), flip=False)
    mesh2 = df.Mesh(p1=(0, 0), p2=(2, 2), n=(2, 2))
    v3 = sx.real_array("v", (2, 2, 2, 3))
    cases = []
    f_nomap = df.Field(mesh3, nvdim=3, value=v3, vdim_mapping={})
    cases += [("div-without-mapping", lambda: f_nomap.div), ("curl-without-mapping", lambda: f_nomap.curl)]
    f_off = df.Field(mesh3, nvdim=3, value=v3, vdim_mapping={"x": "x", "y": "y", "z": "q"})
    cases += [("div-mapping-onto-non-axis", lambda: f_off.div), ("curl-mapping-onto-non-axis", lambda: f_off.curl)]
    f2on3 = df.Field(mesh3, nvdim=2, value=v3[..., :2])
    cases += [("div-nvdim-ne-ndim", lambda: f2on3.div), ("curl-nvdim-2", lambda: f2on3.curl)]
    f3on2 = df.Field(mesh2, nvdim=3, value=(1.0, 2.0, 3.0))
    cases += [("div-3-on-2d", lambda: f3on2.div), ("curl-on-2d", lambda: f3on2.curl)]
    fvec = df.Field(mesh3, nvdim=3, value=v3)
    cases += [("grad-of-vector", lambda: fvec.grad)]
    fs = df.Field(mesh3, nvdim=1, value=v3[..., :1])
    cases += [("curl-of-scalar", lambda: fs.curl), ("div-of-scalar-3d", lambda: fs.div)]
    f4 = df.Field(mesh3, nvdim=4, value=(1.0, 2.0, 3.0, 4.0))
    cases += [("div-nvdim-4-on-3d", lambda: f4.div), ("curl-nvdim-4", lambda: f4.curl)]
    # more components than axes, every axis named by the mapping (one of them twice)
    f3on2m = df.Field(mesh2, nvdim=3, value=(1.0, 2.0, 3.0), vdim_mapping={"x": "x", "y": "y", "z": "x"})
    f4on3m = df.Field(mesh3, nvdim=4, value=(1.0, 2.0, 3.0, 4.0), vdims=["p", "q", "r", "t"], vdim_mapping={"p": "x", "q": "y", "r": "z", "t": "z"})
    cases += [("div-3-on-2d-mapped-twice", lambda: f3on2m.div), ("div-4-on-3d-mapped-twice", lambda: f4on3m.div), ("curl-4-on-3d-mapped-twice", lambda: f4on3m.curl)]
    for name, call in cases:
        try:
            call()
        except ValueError:
            sx.check(name, True)
        except Exception as ex:  # noqa: BLE001
            sx.check(name, False, exc=f"{type(ex).__name__}: {ex}")
        else:
            sx.check(name, False, exc="accepted")


def tasks(tier):
    q = tier == "quick"
    t = []
    sc = [((3,), "default"), ((3, 3), "renamed"), ((3, 3, 3), "default")] if q else [((3,), "default"), ((4,), "renamed"), ((3, 3), "renamed"), ((4, 3), "default"),
                                                                                  ((3, 3, 3), "default"), ((3, 4, 3), "renamed"), ((3, 3, 3, 3), "default")]
    big = dict(timeout_ms=60000, wall_budget=1500)
    sc += [((3, 3), "shuffled"), ((3, 3, 3), "shuffled")]
    for n, dims in sc:
        t.append(dict(harness="h_poly_scalar", cfg=dict(n=list(n), dims=dims), limits=big))
    for n in ([(3, 3), (3, 3, 3)] if q else [(3, 3), (4, 3), (3, 3, 3), (3, 3, 4), (3, 3, 3, 3)]):
        nd = len(n)
        perms = list(itertools.permutations(range(nd)))
        if nd == 4:
            perms = perms[::5]
        for pi, perm in enumerate(perms):
            for what in ("div", "laplace") + (("curl",) if nd == 3 else ()):
                if what == "laplace" and pi % 3:
                    continue
                t.append(dict(harness="h_poly_vector", cfg=dict(n=list(n), perm=list(perm), what=what, labels="custom" if pi % 2 else "default",
                                                                dims="renamed" if (pi // 2) % 2 else "default", key_order=pi % 3, rename=bool((pi + len(what)) % 2),
                                                                late_mapping=bool(pi % 4 == 1)), limits=big))
    t.append(dict(harness="h_poly_vector", cfg=dict(n=[3, 3], nvdim=3, what="laplace"), limits=big))
    t.append(dict(harness="h_poly_vector", cfg=dict(n=[3], nvdim=1, what="div", perm=[0], labels="custom"), limits=big))
    ident = [((3, 3, 3), [], "default"), ((3, 3, 3), [0], "renamed")] if q else [((3, 3, 3), [], "default"), ((3, 3, 3), [0], "renamed"), ((4, 3, 3), [], "default"),
                                                                                 ((3, 4, 3), [1, 2], "default"), ((4, 4, 3), [0, 1, 2], "renamed")]
    ident.append(((3, 3, 3), [], "shuffled"))
    for n, per, dims in ident:
        t.append(dict(harness="h_identity", cfg=dict(n=list(n), what="curlgrad", periodic=per, dims=dims), limits=big))
        for perm in ([(0, 1, 2), (1, 2, 0)] if q else list(itertools.permutations(range(3)))):
            t.append(dict(harness="h_identity", cfg=dict(n=list(n), what="divcurl", periodic=per, dims=dims, perm=list(perm), labels="custom" if perm[0] else "default"), limits=big))
    rot = []
    for what, n in (("grad", (3, 2)), ("div", (3, 2)), ("laplace_s", (2, 3)), ("laplace_v", (3, 2)), ("laplace_s", (4, 3)), ("laplace_v", (2, 4)), ("grad", (4, 2)),
                    ("grad", (2, 3, 2)), ("div", (2, 2, 3)), ("curl", (3, 2, 2))):
        nd = len(n)
        pairs = list(itertools.permutations(range(nd), 2))
        ks = [1, 2, 3] if not q else [1]
        for pi, (a, b) in enumerate(pairs):
            if q and nd == 3 and pi % 2:
                continue
            for k in ks:
                rot.append(dict(harness="h_rotate", cfg=dict(n=list(n), what=what, ax1=a, ax2=b, k=k if not q else 1 + (pi % 3)), limits=big))
    t += rot
    # the same with a component-to-axis mapping that is not the positional one
    for what, n, perm, (a, b), k in [("laplace_v", (3, 2), [1, 0], (0, 1), 1), ("div", (2, 3), [1, 0], (1, 0), 1), ("laplace_v", (2, 2, 3), [1, 2, 0], (0, 2), 3), ("curl", (2, 3, 2), [2, 0, 1], (1, 2), 1)] + (
            [] if q else [("laplace_v", (3, 2, 2), [0, 2, 1], (0, 1), 2), ("div", (2, 2, 3), [2, 1, 0], (2, 0), 1), ("curl", (2, 2, 3), [1, 0, 2], (0, 1), 3)]):
        t.append(dict(harness="h_rotate", cfg=dict(n=list(n), what=what, ax1=a, ax2=b, k=k, perm=perm), limits=big))
    t.append(dict(harness="h_refuse", cfg={}))
    return t
