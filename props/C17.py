"""C17 -- xarray export/import is lossless and uses cell centres as coordinates (DESIGN 2/C17)."""
from __future__ import annotations

import itertools

import numpy as np

from symx import lib

from .common import DIMSETS, sym_mesh

META = dict(
    bounds=dict(
        quick=dict(also="arrays derived from an imported one (every second sample); concrete far-offset geometries (offset/cell up to 1e10, up to 64 cells)",
                   ndim="1..3", n="1..3 per axis", nvdim="1..3", dims="default / renamed", units="default / custom", labels="default / custom",
                   attrs="complete, each one removed, geometric ones removed together, all removed", dtype="float (symbolic values); int/complex/float32/bool natively"),
        thorough=dict(ndim="1..4", n="1..3 per axis", nvdim="1..4", dims="default / renamed", units="default / custom", labels="default / custom", attrs="as quick", dtype="as quick"),
    ),
    stubs=["xarray: the real library (object-dtype data and coordinates; only storage and read-back are involved)"],
    assumptions=["REAL theory", "uneven spacing: the perturbation exceeds numpy.allclose's band (1e-8 + 1e-5*spacing) by a factor 3; smaller ones may go either way"],
    outside=["n > 3 with symbolic geometry (the far-offset harness uses concrete binary64 geometry with up to 64 cells)", "NaN values", "vdim_mapping (the library documents it is not stored)"],
)

CUSTOM = {1: None, 2: ["a", "b"], 3: ["mx", "my", "mz"], 4: ["p", "q", "r", "t"]}
UNITS = {"default": None, "custom": ["nm", "um", "mm", "km"], "empty": ["nm", "", "um", ""]}


def _setup(sx, cfg):
    df = lib.load()
    n = tuple(cfg["n"])
    nd = len(n)
    nv = cfg["nvdim"]
    dims = DIMSETS[cfg.get("dims", "default")][nd]
    units = UNITS[cfg.get("units", "default")]
    units = None if units is None else units[:nd]
    mesh, pmin, e = sym_mesh(sx, n, dims=dims, units=units, flip=False)
    arr = sx.real_array("v", (*n, nv))
    labels = CUSTOM[nv] if cfg.get("labels") == "custom" else None
    f = df.Field(mesh, nvdim=nv, value=arr, vdims=labels, unit=cfg.get("unit", "A/m"))
    return df, f, mesh, pmin, e, arr, n, nd, nv, dims


def _centres(pmin, e, n, a):
    return [pmin[a] + (i + 0.5) * e[a] / n[a] for i in range(n[a])]


def _check_equal_field(sx, g, f, pmin, e, n, arr, tag, units=True):
    nd = len(n)
    sx.check(f"{tag}-n", tuple(int(x) for x in g.mesh.n) == tuple(n))
    sx.check(f"{tag}-pmin", sx.eq(list(g.mesh.region.pmin), pmin))
    sx.check(f"{tag}-pmax", sx.eq(list(g.mesh.region.pmax), [pmin[a] + e[a] for a in range(nd)]))
    sx.check(f"{tag}-dims", tuple(g.mesh.region.dims) == tuple(f.mesh.region.dims))
    if units:
        sx.check(f"{tag}-units", tuple(g.mesh.region.units) == tuple(f.mesh.region.units))
    sx.check(f"{tag}-nvdim-labels", g.nvdim == f.nvdim and (None if g.vdims is None else list(g.vdims)) == (None if f.vdims is None else list(f.vdims)))
    ok = tuple(np.shape(g.array)) == tuple(np.shape(f.array))
    sx.check(f"{tag}-shape", ok)
    if ok:
        sx.check(f"{tag}-values", sx.eq(g.array, arr))


def h_roundtrip(sx, cfg):
    df, f, mesh, pmin, e, arr, n, nd, nv, dims = _setup(sx, cfg)
    import xarray as xr

    xa = f.to_xarray() if not cfg.get("name") else f.to_xarray(name=cfg["name"], unit=cfg.get("export_unit"))
    sx.check("is-dataarray", isinstance(xa, xr.DataArray) and xa.name == (cfg.get("name") or "field"))
    sx.check("dims", tuple(xa.dims) == tuple(dims) + (("vdims",) if nv > 1 else ()))
    for a, d in enumerate(dims):
        got = list(xa[d].values)
        sx.check(f"coord-{a}-centres", len(got) == n[a] and sx.eq(got, _centres(pmin, e, n, a)))
        sx.check(f"coord-{a}-units", xa[d].attrs.get("units") == mesh.region.units[a])
    if nv > 1:
        sx.check("vdims-coordinate", list(xa["vdims"].values) == list(f.vdims))
    at = xa.attrs
    sx.check("attr-keys", {"units", "cell", "pmin", "pmax", "nvdim", "tolerance_factor"} <= set(at))
    sx.check("attr-cell", sx.eq(list(at["cell"]), [e[a] / n[a] for a in range(nd)]))
    sx.check("attr-pmin", sx.eq(list(at["pmin"]), pmin))
    sx.check("attr-pmax", sx.eq(list(at["pmax"]), [pmin[a] + e[a] for a in range(nd)]))
    sx.check("attr-nvdim", at["nvdim"] == nv)
    sx.check("attr-unit", at["units"] == (cfg.get("export_unit") or f.unit))
    sx.check("attr-tolerance", at["tolerance_factor"] == mesh.region.tolerance_factor)
    vals = xa.values
    sx.check("values-shape", tuple(np.shape(vals)) == (tuple(n) + ((nv,) if nv > 1 else ())))
    for idx in np.ndindex(*n):
        for k in range(nv):
            sx.check(f"value{idx}[{k}]", sx.eq(vals[idx + ((k,) if nv > 1 else ())], arr[idx + (k,)]))
    g = df.Field.from_xarray(xa)
    _check_equal_field(sx, g, f, pmin, e, n, arr, "import")
    sx.check("import-equal", g.mesh == f.mesh if not sx.sym else True)
    sx.check("import-tolerance", g.mesh.region.tolerance_factor == mesh.region.tolerance_factor)
    sx.check("source-untouched", sx.eq(f.array, arr))
    # history: the mesh is moved and rescaled in place; a later export carries the current cell centres and attributes
    tvec = sx.reals("t", nd)
    f.mesh.translate(sx.arr(tvec) if nd > 1 else tvec[0], inplace=True)
    f.mesh.scale(2.0, reference_point=[pmin[a] + tvec[a] for a in range(nd)], inplace=True)
    xb = f.to_xarray()
    for a, d in enumerate(dims):
        want = [pmin[a] + tvec[a] + (i + 0.5) * 2.0 * e[a] / n[a] for i in range(n[a])]
        sx.check(f"coords-after-in-place-change-{a}", sx.eq(list(xb[d].values), want))
    sx.check("attrs-after-in-place-change", sx.And(sx.eq(list(xb.attrs["pmin"]), [pmin[a] + tvec[a] for a in range(nd)]), sx.eq(list(xb.attrs["cell"]), [2.0 * e[a] / n[a] for a in range(nd)])))


def h_transposed(sx, cfg):
    """a DataArray whose dimensions were transposed after export (coordinate storage order differs from dimension order), without the
    geometric attributes: each axis gets its own spacing"""
    df, f, mesh, pmin, e, arr, n, nd, nv, dims = _setup(sx, cfg)
    xa = f.to_xarray()
    for k in cfg.get("drop", ["cell", "pmin", "pmax"]):
        del xa.attrs[k]
    order = list(reversed(dims)) + (["vdims"] if nv > 1 else [])
    xt = xa.transpose(*order)
    try:
        g = df.Field.from_xarray(xt)
    except Exception as ex:  # noqa: BLE001
        sx.check("transposed-import-accepted", False, exc=f"{type(ex).__name__}: {ex}")
        return
    sx.check("transposed-import-accepted", True)
    rn = tuple(reversed(n))
    sx.check("dims-in-dataarray-order", tuple(g.mesh.region.dims) == tuple(reversed(dims)) and tuple(int(x) for x in g.mesh.n) == rn)
    for a in range(nd):
        b = nd - 1 - a
        sx.check(f"cell-of-its-own-axis[{a}]", sx.eq(g.mesh.cell[a], e[b] / n[b]))
        sx.check(f"corners-of-its-own-axis[{a}]", sx.And(sx.eq(g.mesh.region.pmin[a], pmin[b]), sx.eq(g.mesh.region.pmax[a], pmin[b] + e[b])))
    for idx in np.ndindex(*n):
        for k in range(nv):
            sx.check(f"value{idx}[{k}]", sx.eq(g.array[tuple(reversed(idx)) + (k,)], arr[idx + (k,)]))


def h_partial(sx, cfg):
    """attributes partly or wholly removed: the mesh is rebuilt from the evenly spaced coordinates"""
    df, f, mesh, pmin, e, arr, n, nd, nv, dims = _setup(sx, cfg)
    xa = f.to_xarray()
    drop = cfg["drop"]
    for k in drop:
        if k == "coord-units":
            for d in dims:
                del xa[d].attrs["units"]
        else:
            del xa.attrs[k]
    single = any(k == 1 for k in n)
    try:
        g = df.Field.from_xarray(xa)
    except KeyError:
        ok = "nvdim" in drop or ("cell" in drop and single)
        sx.check("keyerror-only-when-nvdim-missing-or-single-cell-without-cell", ok)
        return
    except Exception as ex:  # noqa: BLE001
        sx.check("import-accepted", False, exc=f"{type(ex).__name__}: {ex}")
        return
    sx.check("import-accepted", "nvdim" not in drop and not ("cell" in drop and single))
    _check_equal_field(sx, g, f, pmin, e, n, arr, "import", units="coord-units" not in drop)
    wide = [a for a in range(nd) if n[a] >= 3]
    if {"cell", "pmin", "pmax"} <= set(drop) and wide:
        # history: an array derived from the imported one (every second sample along one axis; xarray keeps the attributes)
        # is imported next -- it also lacks the geometric attributes, so its mesh follows its own coordinates
        a0 = wide[0]
        xa2 = xa.isel({dims[a0]: slice(0, None, 2)})
        n2 = list(n)
        n2[a0] = (n[a0] + 1) // 2
        c0 = e[a0] / n[a0]
        try:
            g2 = df.Field.from_xarray(xa2)
        except Exception as ex:  # noqa: BLE001
            sx.check("derived-import-accepted", False, exc=f"{type(ex).__name__}: {ex}")
            return
        sx.check("derived-n", tuple(int(x) for x in g2.mesh.n) == tuple(n2))
        sx.check("derived-cell", sx.eq(g2.mesh.cell[a0], 2 * c0))
        sx.check("derived-corners", sx.And(sx.eq(g2.mesh.region.pmin[a0], pmin[a0] - c0 / 2), sx.eq(g2.mesh.region.pmax[a0], pmin[a0] - c0 / 2 + 2 * c0 * n2[a0])))
        sel = [slice(None)] * nd
        sel[a0] = slice(0, None, 2)
        if tuple(np.shape(g2.array)) == (*n2, nv):
            sx.check("derived-values", sx.eq(g2.array, arr[tuple(sel)]))
    if "coord-units" in drop:
        sx.check("default-units", tuple(g.mesh.region.units) == ("m",) * nd)
    if "tolerance_factor" in drop:
        sx.check("default-tolerance", g.mesh.region.tolerance_factor == 1e-12)


def h_far(sx, cfg):
    """concrete binary64 geometry far from the origin (coordinates carry rounding of order eps*|x|, far above tolerance*cell),
    symbolic values: a complete export is imported to an equal field"""
    df = lib.load()
    n = tuple(cfg["n"])
    nd = len(n)
    nv = cfg["nvdim"]
    p1, p2 = cfg["box"]
    mesh = df.Mesh(p1=tuple(p1) if nd > 1 else p1[0], p2=tuple(p2) if nd > 1 else p2[0], n=n if nd > 1 else n[0])
    arr = sx.real_array("v", (*n, nv))
    f = df.Field(mesh, nvdim=nv, value=arr)
    xa = f.to_xarray()
    for k in cfg.get("drop", []):
        del xa.attrs[k]
    try:
        g = df.Field.from_xarray(xa)
    except Exception as ex:  # noqa: BLE001
        sx.check("far-export-accepted", False, exc=f"{type(ex).__name__}: {ex}")
        return
    sx.check("far-export-accepted", True)
    sx.check("far-n", tuple(int(x) for x in g.mesh.n) == n)
    sx.check("far-mesh-equal", g.mesh == f.mesh)
    sx.check("far-values", sx.eq(g.array, arr))


def h_uneven(sx, cfg):
    """unevenly spaced coordinates are rejected (with and without geometric attributes)"""
    df, f, mesh, pmin, e, arr, n, nd, nv, dims = _setup(sx, cfg)
    xa = f.to_xarray()
    ax = cfg["axis"]
    i = cfg["index"]
    c = e[ax] / n[ax]
    eps = sx.real("eps")
    band = 3 * (1e-8 + 1e-5 * c) * n[ax]
    sx.assume(sx.And(sx.Or(eps > band, eps < -band), eps < 0.4 * c, eps > -0.4 * c))
    coords = _centres(pmin, e, n, ax)
    coords[i] = coords[i] + eps
    from symx.sarray import symarray

    xb = xa.assign_coords({dims[ax]: symarray(coords) if sx.sym else np.array(coords, dtype=float)})
    xb[dims[ax]].attrs["units"] = mesh.region.units[ax]
    for k in cfg.get("drop", []):
        del xb.attrs[k]
    try:
        df.Field.from_xarray(xb)
    except ValueError:
        sx.check("uneven-refused", True)
    except Exception as ex:  # noqa: BLE001
        sx.check("uneven-refused", False, exc=f"{type(ex).__name__}: {ex}")
    else:
        sx.check("uneven-refused", False, exc="accepted")


def h_refuse(sx, cfg):
    df, f, mesh, pmin, e, arr, n, nd, nv, dims = _setup(sx, cfg)
    import xarray as xr

    xa = f.to_xarray()
    cases = [("non-dataarray", lambda: df.Field.from_xarray(arr), TypeError), ("dataset", lambda: df.Field.from_xarray(xa.to_dataset(name="f")), TypeError),
             ("to_xarray-name-type", lambda: f.to_xarray(name=3), TypeError), ("to_xarray-unit-type", lambda: f.to_xarray(unit=3), TypeError)]
    x0 = xa.copy()
    x0.attrs["nvdim"] = 0
    cases.append(("nvdim-zero", lambda: df.Field.from_xarray(x0), ValueError))
    x1 = xa.copy()
    x1.attrs["nvdim"] = float(nv)
    cases.append(("nvdim-float", lambda: df.Field.from_xarray(x1), TypeError))
    if nv > 1:
        x2 = xa.isel(vdims=0, drop=True)
        x2.attrs["nvdim"] = nv
        cases.append(("vector-without-component-axis", lambda: df.Field.from_xarray(x2), ValueError))
    for name, call, exc in cases:
        try:
            call()
        except exc:
            sx.check(name, True)
        except Exception as ex:  # noqa: BLE001
            sx.check(name, False, exc=f"{type(ex).__name__}: {ex}")
        else:
            sx.check(name, False, exc="accepted")


def h_dtype(sx, cfg):
    """dtype kinds and inferred dtypes (native execution: dtype is not a solver notion)"""
    df = lib.load()
    with sx.native():
        n = tuple(cfg["n"])
        nd = len(n)
        nv = cfg["nvdim"]
        mesh = df.Mesh(p1=(0.0,) * nd if nd > 1 else 0.0, p2=tuple(float(k) * 0.5 for k in n) if nd > 1 else n[0] * 0.5, n=n if nd > 1 else n[0])
        rng = np.random.default_rng(7)
        base = rng.integers(-5, 6, size=(*n, nv))
        variants = {
            "float-declared": dict(value=base + 0.25, dtype=np.float64),
            "float-inferred": dict(value=base + 0.25),
            "int-declared": dict(value=base, dtype=np.int64),
            "complex-declared": dict(value=base + 1j * base[::-1], dtype=np.complex128),
            "complex-inferred-array": dict(value=base + 1j * (base + 1)),
            "complex-inferred-constant": dict(value=(1 + 2j) if nv == 1 else tuple(1 + 2j * k for k in range(nv))),
            "float32-declared": dict(value=(base + 0.5).astype(np.float32), dtype=np.float32),
            "bool-declared": dict(value=base > 0, dtype=bool),
        }
        for name, kw in variants.items():
            f = df.Field(mesh, nvdim=nv, **kw)
            xa = f.to_xarray()
            sx.check(f"{name}-export-dtype", xa.values.dtype == f.array.dtype)
            sx.check(f"{name}-export-values", bool(np.array_equal(xa.values.reshape(f.array.shape), f.array)))
            g = df.Field.from_xarray(xa)
            sx.check(f"{name}-import-dtype", g.array.dtype == f.array.dtype)
            sx.check(f"{name}-import-equal", bool(g == f) and bool(np.array_equal(g.array, f.array)))
        # product of a real field with 1j: complex values, dtype never declared
        f = df.Field(mesh, nvdim=nv, value=base + 0.5) * 1j
        xa = f.to_xarray()
        sx.check("real-times-1j-export", xa.values.dtype == f.array.dtype and bool(np.array_equal(xa.values.reshape(f.array.shape), f.array)))
        sx.check("real-times-1j-import", bool(df.Field.from_xarray(xa) == f))


def tasks(tier):
    q = tier == "quick"
    t = []
    big = dict(timeout_ms=60000, wall_budget=1200, max_paths=5000)
    shapes = [((3,), 1), ((2, 3), 2), ((2, 1, 2), 3), ((1,), 2)] if q else [((3,), 1), ((2,), 3), ((2, 3), 2), ((3, 2), 1), ((2, 1, 2), 3), ((1,), 2), ((2, 2, 2), 1), ((2, 1, 2, 2), 4)]
    for i, (n, nv) in enumerate(shapes):
        cfg = dict(n=list(n), nvdim=nv, dims="renamed" if i % 2 else "default", units="custom" if i % 2 == 0 else "default", labels="custom" if i % 3 else "default")
        t.append(dict(harness="h_roundtrip", cfg=cfg, limits=big))
        if i % 2:
            t.append(dict(harness="h_roundtrip", cfg=dict(cfg, name="m", export_unit="T", unit=None), limits=big))
        drops = [["cell"], ["pmin"], ["pmax"], ["pmin", "pmax"], ["cell", "pmin", "pmax"], ["nvdim"], ["tolerance_factor"], ["units"], ["coord-units"],
                 ["cell", "pmin", "pmax", "tolerance_factor", "units", "coord-units"]]
        if q:
            drops = drops[i % 2:: 2] + [["cell"]]
        for d in drops:
            t.append(dict(harness="h_partial", cfg=dict(cfg, drop=d), limits=big))
    for n, nv, ax, idx, drop in ([((3,), 1, 0, 1, []), ((2, 3), 2, 1, 2, ["cell", "pmin", "pmax"]), ((3, 2), 1, 0, 0, ["cell"])] if q else
                                 [((3,), 1, 0, 1, []), ((3,), 2, 0, 2, ["pmin", "pmax"]), ((2, 3), 2, 1, 2, ["cell", "pmin", "pmax"]), ((3, 2), 1, 0, 0, ["cell"]), ((2, 3, 2), 1, 1, 1, [])]):
        t.append(dict(harness="h_uneven", cfg=dict(n=list(n), nvdim=nv, axis=ax, index=idx, drop=drop), limits=big))
    for n, nv in (((2,), 1), ((2, 2), 3)):
        t.append(dict(harness="h_refuse", cfg=dict(n=list(n), nvdim=nv)))
    for n, nv in ([((2, 3), 1), ((3, 2, 2), 3)] if q else [((2, 3), 1), ((3, 2), 2), ((3, 2, 2), 3), ((2, 3, 2, 2), 1)]):
        # (positional attributes pmin/pmax/cell of an export do not follow a transpose; they are removed together)
        t.append(dict(harness="h_transposed", cfg=dict(n=list(n), nvdim=nv, dims="default"), limits=big))
        t.append(dict(harness="h_transposed", cfg=dict(n=list(n), nvdim=nv, dims="renamed", units="custom"), limits=big))
    for n, nv in (((2, 2), 1), ((2, 1, 2), 3)):
        t.append(dict(harness="h_roundtrip", cfg=dict(n=list(n), nvdim=nv, units="empty", labels="custom"), limits=big))
    far = [dict(n=[16], nvdim=1, box=[[1e5], [1e5 + 1.6]]), dict(n=[4, 8], nvdim=2, box=[[-3e4, 2e4], [-3e4 + 2, 2e4 + 2]]), dict(n=[10], nvdim=1, box=[[1e-3], [1e-3 + 1e-8]]),
           dict(n=[7], nvdim=1, box=[[1e7], [1e7 + 0.7]], drop=["cell"])]
    if not q:
        far += [dict(n=[64], nvdim=1, box=[[1e6], [1e6 + 6.4]]), dict(n=[3, 2, 5], nvdim=3, box=[[-1e5 - 0.3, 50.0, 1e3], [-1e5, 50.2, 1e3 + 1e-3]]), dict(n=[12], nvdim=1, box=[[-1e9], [-1e9 + 1.2]], drop=["pmin", "pmax"])]
    for cfg in far:
        t.append(dict(harness="h_far", cfg=cfg, limits=big))
    for n, nv in ([((3,), 1), ((2, 2), 3)] if q else [((3,), 1), ((2, 2), 3), ((2, 1, 2), 2), ((1, 2, 1, 2), 1)]):
        t.append(dict(harness="h_dtype", cfg=dict(n=list(n), nvdim=nv)))
    return t
