#!/usr/bin/env python3
"""regenerate /verif/MANIFEST.json from the table below (kept in one place so it stays valid)"""
import json, os

VERIF = os.path.dirname(os.path.dirname(os.path.abspath(__file__)))
TECH = ("bounded symbolic execution of the real Python code (proxy scalars in NumPy object arrays, DFS over path "
        "conditions), each obligation decided by z3 (QF_NIRA) for all values of the symbolic inputs; sat models replayed natively")
NOTE_COMMON = ("floats as exact reals (REAL theory); bounded configuration (see evidence.coverage.bounds); NumPy models for "
               "isclose/astype/round/linspace/gradient/norm/clip/where validated per run against native execution; z3 trusted")

CLAIMED = {
    "C01": dict(
        text="Every feasible path of Region/Mesh construction, index2point, point2index, indices/__iter__/cells/vertices/"
             "coordinate_field is executed symbolically with free corner coordinates (either corner order), free probe points, "
             "free indices and symbolic cell counts 1..64; closed-form oracle pmin+(i+1/2)*edges/n; accept/reject of a mesh by "
             "cell size decided for symbolic position, count and commensurability defect. Holds for all real values inside the "
             "bounds, not for sampled ones.",
        ref="DESIGN.md section 2 / C01",
    ),
}
CLAIMED["C04"] = dict(
    text="operators._split_diff_combine/_1d_diff and Field.diff are executed on symbolic data for every validity pattern of the "
         "bounded line lengths / meshes (patterns forked by the explorer), both orders, open and periodic, restrict2valid on/off: "
         "each maximal run carries an independent symbolic polynomial of the highest degree the statement promises to be exact, "
         "invalid cells carry free symbols, so exactness, zero results, run isolation, line/component independence are one "
         "unsat query per output cell; linearity with free alpha, beta; periodic rings against the wrap-around centred difference.",
    ref="DESIGN.md section 2 / C04",
)
CLAIMED["C06"] = dict(
    text="Field.integrate (total, directional, cumulative), Field.mean (none/one/several directions) and operators.integrate run "
         "symbolically with free geometry and free cell values; independent python folds give the expected sums; Fubini for every "
         "order, cumulative/total relation, reduced-mesh geometry, linearity with free alpha/beta, translation invariance and "
         "consistency after an in-place rescale are unsat queries per output element.",
    ref="DESIGN.md section 2 / C06",
)
CLAIMED["C12"] = dict(
    text="Region/Mesh/Field.rotate90 run symbolically (free corners, free reference point, free cell values, symbolic validity "
         "bits) for every ordered axis pair, k in a bounded range incl. negatives, copy and in-place forms, permuted / partially "
         "mapped component-to-axis mappings and subregions; oracle: exact quarter-turn matrix Q for k mod 4, g(R+Q(p-R)) = Q f(p) "
         "cell by cell through an index map that the same run validates against the rotated geometry.",
    ref="DESIGN.md section 2 / C12",
)
CLAIMED["C13"] = dict(
    text="Inductive step(s): from a constructor state with symbolic geometry, every transformation (translate, scale with "
         "scalar / per-axis factors of any sign, rotate90) of Region, Mesh (with subregions) and Field is executed with symbolic "
         "arguments in both forms; after each step the representation invariant, the documented affine image (independent box "
         "oracle), return identity, in-place == copy attribute by attribute and original-untouched are unsat queries; degenerate "
         "(zero factor, decided by a fork on the symbolic factor) and malformed arguments must be refused in both forms with the "
         "object unchanged. 2-step (thorough: 3-step) histories mix the forms to show the invariant is closed. A concrete binary64 "
         "sub-check (h_float_degenerate, not solver-decided) covers non-zero factors whose image collapses only in floating point.",
    ref="DESIGN.md section 2 / C13",
    note=NOTE_COMMON + "; meshes WITH subregions use concrete scale factors (several signs/anisotropies) because the constructor's "
         "lattice checks on a symbolically scaled box are beyond z3's nonlinear reach; regions and meshes without subregions use symbolic factors",
)
CLAIMED["C02"] = dict(
    text="Field construction / update_field_values / the array setter run symbolically for every kind of specification: "
         "constants and vectors (free reals), per-cell arrays (every entry free), callables (uninterpreted functions of the "
         "point, i.e. every function at once), per-subregion dictionaries over disjoint / overlapping / nested cell-aligned "
         "subregions with constant, callable or missing default, and source fields on another mesh (real xarray nearest "
         "selection, symbolic values). Each stored entry is compared with the specification at the closed-form cell centre; "
         "sampling at a free point, component access, iteration order, Field.line (points, distances, values) and refusals that "
         "must leave the field unchanged are separate obligations.",
    ref="DESIGN.md section 2 / C02",
    note=NOTE_COMMON + "; dtype kinds and the source-field geometry are concrete configurations (dtype is not a solver notion)",
)
CLAIMED["C03"] = dict(
    text="Expression trees (all of depth 1, a strided subset of depth 2, thorough: depth 3) over vector/scalar fields, symbolic "
         "numbers, constant vectors and per-cell arrays with + - * / **2 **3 unary -/+/abs dot/@ cross/& << and numpy ufuncs, "
         "either operand order, are evaluated by the real Field operators on free symbolic cell values and symbolic validity "
         "bits; an independent cell-wise evaluator with numpy broadcasting gives the expected entry for every cell and "
         "component; result mesh, validity (AND), operand snapshots (array object and entries, validity, labels, mapping, mesh "
         "geometry) are further obligations; a*b==b*a / a+b==b+a attribute by attribute incl. labels and mapping; restacking "
         "components; complex parts and complex dot products on symbolic real/imaginary parts; refusals for shifted meshes "
         "(symbolic offset beyond the tolerance), other cell counts, incompatible nvdim, unsupported types.",
    ref="DESIGN.md section 2 / C03",
)
CLAIMED["C05"] = dict(
    text="Field.grad/div/curl/laplace run on meshes with symbolic anisotropic cells and position: (a) every component is a "
         "general polynomial of total degree <=2 with symbolic coefficients sampled at the closed-form centres and the result "
         "must equal the analytic derivative at every cell, with components paired to axes through every permutation of the "
         "component-to-axis mapping (custom labels, renamed dimensions, mapping dictionaries written in another key order, "
         "assigned late, labels renamed afterwards); (b) curl(grad f)=0 and div(curl v)=0 for completely free cell values, "
         "open and periodic; (c) op(rotate90(f)) == rotate90(op(f)) cell by cell for free values; (d) refusals.",
    ref="DESIGN.md section 2 / C05",
)
CLAIMED["C07"] = dict(
    text="Field.sel (plane at a symbolic coordinate or the central cell; range with symbolic bounds in either order), "
         "Field[name], Field[Region] with symbolic box corners, Mesh.region2slices, Field.pad (widths 0..2, constant/wrap/"
         "edge/symmetric) and Field.resample run on symbolic cell values and symbolic validity bits; every result cell is "
         "compared with the source cell at the same physical position (closed-form index maps, tolerance band at faces), "
         "result geometry with the documented block (containing cells, smallest block, grown region); integer-typed corners "
         "and decimal cell sizes are separate configurations whose every path is additionally replayed natively.",
    ref="DESIGN.md section 2 / C07",
    note=NOTE_COMMON + "; Field[Region] and resample use concrete mesh geometry (symbolic box corners / values): floor/ceil of "
         "a symbolic corner over a symbolic cell size is beyond z3's nonlinear reach within the quick budget",
)
CLAIMED["C08"] = dict(
    text="Every Field operator/method that returns a field on the same cells (unary, with constants, component access, norm, "
         "orientation, complex parts, numpy ufuncs, derivatives, field-field binaries incl. dot/cross/angle/<<, depth-2 "
         "compositions) is run with one symbolic validity bit per cell and operand: result mask == operand mask resp. "
         "cell-wise AND is one unsat query per cell, operands' masks unchanged; selection/extraction/padding/resampling reuse "
         "the C07 harnesses (validity moves with the same index map as the data), quarter-turn rotations are covered by C12's "
         "harnesses, VTK/HDF5 round trips by the C16/C10 harnesses (imported once those properties are claimed); validity "
         "setters (array, (*n,1) array, callable with a symbolic threshold, constants, None, 'norm' with the 1e-8 threshold as "
         "an NRA obligation) never touch the values and yield Boolean masks; mask ownership (no shared memory, writes do "
         "not leak, caller's array not adopted, non-Boolean masks converted) is decided on a native execution per operator.",
    ref="DESIGN.md section 2 / C08",
)
CLAIMED["C14"] = dict(
    text="The subregions setter is run with symbolic candidate box corners on concrete meshes (accepted only within the "
         "alignment tolerances of the lattice and inside; rejection leaves the previous dictionary, whichever position the "
         "bad entry has) and with symbolic mesh geometry for exact lattice boxes and symbolic shifted / oversized / fractional "
         "ones; is_aligned with symbolic offset and cell-size defect; plane and range selection with symbolic coordinates keep "
         "exactly the overlapping subregions clipped to the slab (integer-typed corners with fractional cells included); "
         "mesh[name]; JSON side-car round trip through the library's encoder; translate/scale/rotate90 through C13's "
         "inductive-step harness; plus a native binary64 sweep over every cell range of decimal meshes whose subregion "
         "corners come from mesh.vertices (face coincidence up to an ulp).",
    ref="DESIGN.md section 2 / C14",
    note=NOTE_COMMON + "; candidate-box acceptance and most selections use concrete mesh geometry with symbolic coordinates (floor/"
         "remainder of symbolic/symbolic is out of reach within the quick budget; thorough adds symbolic geometry in 1-d/2-d); "
         "offsets beyond 1000 edge lengths and cells below 1e-9 are outside the claim; HDF5 persistence of subregions is C10's harness",
)
CLAIMED["C15"] = dict(
    text="Field.norm (getter and setter, through the constructor and afterwards) and Field.orientation run on cells that are "
         "either free symbolic vectors or exactly zero (selector bit), with constant / per-cell / uninterpreted-function / "
         "partly-zero target lengths >= 0: per cell |new|^2 = t^2, new parallel to and not opposite the old vector, zeros stay "
         "zero; norm >= 0 with norm^2 = sum of squares and same mesh/unit/validity; orientation unit or zero around the 1e-8 "
         "threshold and orientation*norm reproduces the field; updates and in-place writes after a norm was set are not "
         "re-normalised and a later norm read/set follows the current values. NRA queries with the exact square-root encoding.",
    ref="DESIGN.md section 2 / C15",
)
CLAIMED["C17"] = dict(
    text="Field.to_xarray / Field.from_xarray run against the real xarray with symbolic geometry and symbolic values: "
         "coordinates equal the closed-form cell centres with the region's units, component coordinate, every attribute, "
         "values cell by cell; the re-imported field equals the source attribute by attribute; with each attribute (or the "
         "geometric ones together, or all) removed the mesh is rebuilt from the spacing (KeyError only for a missing nvdim or a "
         "single-cell axis without cell); a coordinate perturbed by a symbolic eps beyond allclose's band is refused with and "
         "without geometric attributes; refusals; dtype kinds incl. inferred complex dtypes natively.",
    ref="DESIGN.md section 2 / C17",
)
CLAIMED["C11"] = dict(
    text="Field.fftn/ifftn/rfftn/irfftn and Mesh.fftn/ifftn run with symbolic cell sizes, mesh position and symbolic real or "
         "complex cell values against an exact-DFT stub of scipy.fft (axis lengths 1,2,3,4,6: roots of unity are rationals, i "
         "and sqrt(3) with the exact square-root encoding): k-cell centres equal the shifted DFT sample frequencies m/(n*cell) "
         "for every cell (rfft: non-negative half on the last axis), reciprocal names/units; the stored value of every k-cell "
         "equals sum_r f[r] exp(-2 pi i k.r) at that cell's frequency (so fftshift/axes/placement are decided), zero-frequency "
         "cell = plain sum; inverse(forward(f)) = f on the original counts and cell size centred at the origin, with and "
         "without shape; rfftn = matching half of fftn through the k coordinates; linearity with free alpha/beta; label and "
         "mapping renaming incl. labels starting with f/t/_; Mesh-level geometry and shape refusals also for lengths 5,7,8,9,10.",
    ref="DESIGN.md section 2 / C11",
    note=NOTE_COMMON + "; scipy.fft.fftn/ifftn/rfftn/irfftn replaced by an exact DFT with SciPy's documented bin order and "
         "normalisation (native replays use the real SciPy); value-level checks only for axis lengths 1,2,3,4,6",
)
CLAIMED["C10"] = dict(
    text="Field.to_file/from_file for .hdf5 run against an in-memory h5py stub (dtype-casting contract) with symbolic float "
         "corners, symbolic real/complex values and symbolic validity bits, and with concrete integer-typed region corners x "
         "integer / fractional float subregion corners; the reloaded field is compared attribute by attribute (corners, "
         "names, units, tolerance factor, counts, boundary conditions, subregion names in order and their corners, labels, "
         "unit incl. None, every value, every validity bit); the tree layout is inspected; legacy-layout trees are built "
         "and read; every configuration is replayed natively through the real h5py where corner dtypes, bit patterns and "
         "int/float32/complex dtypes are checked as well.",
    ref="DESIGN.md section 2 / C10",
    note=NOTE_COMMON + "; h5py replaced by an in-memory tree that returns what was written after casting to the dataset/attribute "
         "dtype (int truncates); native replays and the dtype harness use the real h5py on scratch files",
)
CLAIMED["C09"] = dict(
    text="The real OVF writer and reader run on symbolic payloads through an in-memory file of header bytes and typed data "
         "chunks (bin8 identity, bin4 = uninterpreted float32 rounding): region, mesh unit, counts, component count, unit (incl. "
         "None), labels (incl. underscores/digits), subregions via the JSON side-car, and every value of the reloaded field; an "
         "independent decoder written from the OVF specification reads what the library wrote (header keys, x-fastest order), "
         "an independent OVF 1.0/2.0 encoder (big/little endian, 4/8 byte, text) is read back to its payload; several files of "
         "one stem keep their own side-cars; the check-value comparison is decided as an IEEE bit-vector/FP lemma by z3; "
         "every single-bit / byte corruption of the check value and every truncation point of the data block is swept "
         "natively; text representation and the repository's sample files natively against the independent decoder.",
    ref="DESIGN.md section 2 / C09",
    note=NOTE_COMMON + "; geometry is concrete (text header); open/np.fromfile/tobytes in io/ovf.py replaced by an in-memory typed-chunk "
         "file; text formatting exactness of CPython/pandas only natively to 1e-9",
)
CLAIMED["C16"] = dict(
    text="Field.to_vtk and the VTK writer/reader pair run on symbolic geometry, symbolic values and symbolic validity bits "
         "against a recorder grid: dimensions n+1, coordinates = vertices, and under VTK's cell-id contract the field tuple, "
         "every component scalar, the norm (exact square-root encoding) and the validity flag stored at cell id "
         "i+nx*(j+ny*k) are those of mesh cell (i,j,k); bin/xml round trips return the same region, counts, values, validity, "
         "labels (incl. labels that are substrings of 'norm') and subregions; native replays use the real VTK where the "
         "cell-id contract is checked through GetCell(id).GetBounds(), the text form to 1e-9, hand-written legacy point-data "
         "files (negative values, anisotropic cells) and the repository's legacy samples.",
    ref="DESIGN.md section 2 / C16",
    note=NOTE_COMMON + "; VTK classes replaced by a recorder grid (writer -> matching reader is the identity); the real VTK only in native replays",
)
CLAIMED["C20"] = dict(
    text="MplField.scalar / contour / vector / __call__ run with a recording Axes on concrete 2-d geometries from nm to km "
         "(default and explicit multiplier) with symbolic values, symbolic validity bits and symbolic filter / colour fields "
         "(same or coarser mesh): the image handed to imshow/contour has A[row j][col i] = value(i,j), NaN exactly where the "
         "cell is invalid or the filter is zero (the explorer forks on every mask bit), origin lower, extent = region / "
         "multiplier; quiver gets the cell centres / multiplier and U,V = the components paired with the two axes through "
         "the mapping (every pairing, partial mappings, explicit labels), colour = the remaining component or the resampled "
         "colour field; axis labels carry dimension names and prefixed units; the field's values, validity and mesh are "
         "unchanged afterwards; refusals draw nothing. Lightness natively with the real matplotlib (shape, extent, alpha).",
    ref="DESIGN.md section 2 / C20",
    note=NOTE_COMMON + "; matplotlib replaced by a recording Axes (the claim is about the arguments handed over, not the rendering); geometry concrete",
)
CLAIMED["C18"] = dict(
    text="Reduced scope (DESIGN 2/C18): field_rotator.py runs under a 3x3-matrix stub of scipy Rotation and a multilinear stub "
         "of RegularGridInterpolator. Decided: (a) for concrete rational rotations (quarter turns, 3-4-5 and 5-12-13 rotations "
         "about each axis, products) on concrete anisotropic meshes with symbolic cell values in [-1,1], every new cell whose "
         "back-rotated centre lies at least one cell inside carries Q applied to the linear interpolation (independent exact "
         "rational weights; component pairing through identity, swapped and cyclic mappings), every cell whose back-rotated "
         "centre lies outside carries zero; uniform fields become Q v and linear scalar fields are reproduced (symbolic "
         "coefficients); (b) two successive rotations equal the rotation by the product (later after earlier) cell by cell, "
         "clearing restores the original; (c) the new region has the same centre, contains every rotated corner and each of "
         "its faces is touched by one, for a symbolic unconstrained 3x3 matrix and symbolic edges; (d) a quarter turn on cubic "
         "cells equals rotate90; (e) refusals. Natively with the real SciPy: quaternion / rotation vector / Euler / matrix / "
         "align_vector (acute, right, obtuse; and back) parametrisations, nanometre-scale meshes, default resolution.",
    ref="DESIGN.md section 2 / C18",
    note=NOTE_COMMON + "; the quantifier over ALL rotations is not reached for the resampling (the cell a back-rotated point falls in is a "
         "nonlinear function of the rotation): rotations are concrete there; cells within one cell of the back-rotated boundary are not constrained",
)
CLAIMED["C19"] = dict(
    text="Reduced scope (DESIGN 2/C19). Decided by the solver: neighbouring-cell angles (result mesh one cell shorter and "
         "shifted by half a cell, arccos of the clipped dot product of the two adjacent unit vectors by UF congruence, range "
         "[0, pi] from the UF axiom, degrees); the continuous charge-density stencil on 3x3 meshes is zero for uniform fields, "
         "odd under reversal, invariant under translation of the mesh, scales with the inverse cell area, moves with the cells "
         "under quarter turns and is invariant under rational proper rotations of all vectors -- for ARBITRARY vector fields "
         "in place of the orientation field (compositional cut of Field.orientation), closed by per-cell lemmas that the real "
         "orientation commutes with reversal, those rotations, positive rescaling and translation; Berg-Luescher bookkeeping "
         "with the triangle angle as an uninterpreted function under every validity pattern (which neighbour pairs enter, "
         "area and count, invalid cells never influence an output); refusals. NOT decided by the solver (run natively, "
         "floating point, sampled): integer lattice charge, triangle angle vs. an independent solid-angle formula, "
         "invariances of both methods on a skyrmion, antiparallel neighbours, hedgehog Bloch points, demagnetisation tensor "
         "(trace, two implementations, cuboid sum rule for cubic and anisotropic cells).",
    ref="DESIGN.md section 2 / C19",
    note=NOTE_COMMON + "; everything that rests on identities of arccos / complex log / arcsinh / arctan or on the FFT is outside the "
         "solver's reach and only exercised natively (stated per obligation group in the evidence); rotations are a finite set of "
         "rational matrices; Field.orientation is cut to the identity inside the tools in symbolic runs",
)
PENDING_REASON = "check not built yet in this round (planned: DESIGN.md section 2); not claimed until it runs green"
NA = {}

props = [json.loads(l) for l in open(os.path.join(VERIF, "properties.jsonl"))]
checks, na = [], []
for p in props:
    pid = p["id"]
    if pid in CLAIMED:
        c = CLAIMED[pid]
        checks.append(dict(
            property_id=pid,
            quick_cmd=f"bin/check {pid} --tier quick",
            thorough_cmd=f"bin/check {pid} --tier thorough",
            evidence_file=f"/verif/evidence/{pid}.json",
            replay_cmd_template=f"bin/check {pid} --replay {{path}}",
            engine="symx",
            level_claimed=dict(category="model_checking", text=c["text"], design_ref=c["ref"]),
            level_note=c.get("note", NOTE_COMMON),
            technique=c.get("technique", TECH),
        ))
    else:
        na.append(dict(property_id=pid, reason=NA.get(pid, PENDING_REASON)))
man = dict(
    version=1,
    setup_cmd="bin/ensure_env.sh",
    hooks=dict(
        guard="DISCRETISEDFIELD_VERIF",
        enable="none needed: the harness process rebinds the module-global `np` of the discretisedfield modules at run time; /repo carries no hook code",
        baseline_off_cmd="cd /repo && /venv/bin/python -m pytest -ra -q -p no:cacheprovider --timeout=900 --continue-on-collection-errors",
        source_commits=[],
        add_only=True,
    ),
    engines=[dict(name="symx", path="/verif/symx", serves_properties=sorted(CLAIMED),
                  kind_free_text="own bounded symbolic executor for Python/NumPy code with z3 back end (CrossHair realises at the first NumPy call)")],
    checks=checks,
    notes="exit codes: 0 all obligations discharged; 1 confirmed (natively replayed) violation; 2 inconclusive (solver unknown, unsupported operation, budget, non-reproducing counterexample). Fix commits in /repo: see known_findings.json.",
    not_applicable=na,
)
json.dump(man, open(os.path.join(VERIF, "MANIFEST.json"), "w"), indent=1)
print("claimed:", sorted(CLAIMED), "n/a:", len(na))
