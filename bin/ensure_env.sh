#!/bin/sh
# idempotent: overlay venv on /venv with z3-solver (+cvc5) from the offline wheelhouse
set -e
V=/verif/.venv
if [ ! -x "$V/bin/python" ] || ! "$V/bin/python" -c "import z3, numpy" >/dev/null 2>&1; then
  rm -rf "$V"
  /venv/bin/python -m venv "$V"
  SP=$("$V/bin/python" -c "import sysconfig; print(sysconfig.get_paths()['purelib'])")
  echo "import site; site.addsitedir('/venv/lib/python3.12/site-packages')" > "$SP/_verif_overlay.pth"
  PIP_NO_INDEX=1 "$V/bin/python" -m pip install -q --no-index --find-links /opt/veriftools/wheels z3-solver >/dev/null
  PIP_NO_INDEX=1 "$V/bin/python" -m pip install -q --no-index --find-links /opt/veriftools/wheels cvc5 >/dev/null 2>&1 || true
fi
"$V/bin/python" -c "import z3, numpy" 
