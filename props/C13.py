"""C13 -- geometric invariants and in-place == copy under any transformation history (DESIGN 2/C13).

Method: inductive step(s) from a valid state with symbolic geometry and symbolic step arguments; every step is executed in
both forms; the expected state is tracked by an independent oracle (affine image of a box)."""
from __future__ import annotations

import itertools

import numpy as np

from symx import lib

from .common import DIMSETS, region_inputs
from .geom import (check_all, fields_same, meshes_same, qturn, region_eq, region_inv, regions_same, rot_box, rot_index,
                   rot_point, sub_boxes, swap_odd)

META = dict(
    bounds=dict(
        quick=dict(also="valid objects / legal steps must be accepted (obligation); objects left behind by copying steps re-checked at the end; nested translate vectors",
                   ndim="1..3", n="<=3", histories="every single step (translate / scale scalar+per-axis, any sign / rotate90) from a "
                   "constructor state, and 2-step histories mixing in-place and copying forms", objects="Region, Mesh (with subregions), Field"),
        thorough=dict(histories="all 2-step and selected 3-step histories", ndim="1..3", n="<=3"),
    ),
    stubs=["exact quarter turns as in C12"],
    assumptions=["REAL theory", "invariant = what constructors establish: pmin<pmax, unique dims, n positive ints, subregions on the lattice"],
    outside=["histories longer than 3 steps are covered only through the inductive argument (every step preserves the invariant from a symbolic valid state)"],
)

UNITS = {1: ("m",), 2: ("m", "s"), 3: ("m", "s", "K")}


class Box:
    """oracle state: box, per-axis n, units, subregion boxes"""

    def __init__(self, lo, hi, n, units, subs):
        self.lo, self.hi, self.n, self.units, self.subs = list(lo), list(hi), list(n), list(units), dict(subs)

    def centre(self):
        return [(a + b) / 2 for a, b in zip(self.lo, self.hi)]


def _affine(sx, lo, hi, f):
    c1, c2 = f(lo), f(hi)
    return [sx.min(x, y) for x, y in zip(c1, c2)], [sx.max(x, y) for x, y in zip(c1, c2)]


def _draw_step(sx, spec, i, nd, dims, state):
    """symbolic arguments for step i -> (call kwargs builder, oracle update, validity condition)"""
    kind = spec["kind"]
    if kind == "translate":
        t = sx.reals(f"s{i}t", nd)
        arg = (list(t) if spec.get("as") == "list" else tuple(t)) if nd > 1 or spec.get("as") else t[0]

        def call(obj, inplace):
            return obj.translate(arg, inplace=inplace)

        def update(st):
            f = lambda p: [p[a] + t[a] for a in range(nd)]  # noqa: E731
            lo, hi = _affine(sx, st.lo, st.hi, f)
            subs = {k: _affine(sx, l, h, f) for k, (l, h) in st.subs.items()}
            return Box(lo, hi, st.n, st.units, subs)

        return call, update, True
    if kind == "scale":
        if spec.get("concrete") is not None:
            # concrete factor(s) (mesh with subregions: the constructor's lattice checks on a symbolically scaled,
            # symbolically signed box are beyond z3's nonlinear reach; geometry and reference stay symbolic)
            cv = spec["concrete"]
            s = [float(x) for x in cv] if isinstance(cv, (list, tuple)) else [float(cv)] * nd
            farg = tuple(s) if isinstance(cv, (list, tuple)) else float(cv)
        elif spec.get("per_axis"):
            s = sx.reals(f"s{i}f", nd)
            farg = tuple(s)
        else:
            s0 = sx.real(f"s{i}f")
            s = [s0] * nd
            farg = s0
        if spec.get("ref") == "explicit":
            R = sx.reals(f"s{i}R", nd)
            rarg = tuple(R) if nd > 1 else R[0]
        else:
            R = None
            rarg = None
        nonzero = True if spec.get("concrete") is not None else sx.And(*[sx.ne(x, 0) for x in (s if spec.get("per_axis") else s[:1])])

        def call(obj, inplace):
            return obj.scale(farg, reference_point=rarg, inplace=inplace)

        def update(st):
            RR = R if R is not None else st.centre()
            f = lambda p: [RR[a] + s[a] * (p[a] - RR[a]) for a in range(nd)]  # noqa: E731
            lo, hi = _affine(sx, st.lo, st.hi, f)
            subs = {k: _affine(sx, l, h, f) for k, (l, h) in st.subs.items()}
            return Box(lo, hi, st.n, st.units, subs)

        return call, update, nonzero
    if kind == "rotate":
        a, b, k = spec["a"], spec["b"], spec["k"]
        if spec.get("ref") == "explicit":
            R = sx.reals(f"s{i}R", nd)
            rarg = tuple(R)
        else:
            R = None
            rarg = None

        def call(obj, inplace):
            return obj.rotate90(dims[a], dims[b], k=k, reference_point=rarg, inplace=inplace)

        def update(st):
            RR = R if R is not None else st.centre()
            lo, hi = rot_box(sx, k, a, b, RR, st.lo, st.hi)
            subs = {kk: rot_box(sx, k, a, b, RR, l, h) for kk, (l, h) in st.subs.items()}
            return Box(lo, hi, swap_odd(k, a, b, st.n), swap_odd(k, a, b, st.units), subs)

        return call, update, True
    raise ValueError(kind)


def _state_checks(sx, tag, kindobj, obj, st, dims):
    region = obj if kindobj == "region" else (obj.region if kindobj == "mesh" else obj.mesh.region)
    out = region_eq(sx, region, st.lo, st.hi, dims, st.units, tag=tag + "image")
    out += region_inv(sx, region, tag=tag + "inv")
    if kindobj in ("mesh", "field"):
        mesh = obj if kindobj == "mesh" else obj.mesh
        nn = [int(x) for x in mesh.n]
        out.append((tag + "inv-n", nn == list(st.n) and all(v >= 1 for v in nn)))
        nd = len(st.lo)
        out.append((tag + "inv-cell*n=edges", sx.eq([mesh.cell[a] * nn[a] for a in range(nd)], [st.hi[a] - st.lo[a] for a in range(nd)])))
        # the index <-> coordinate maps follow the transformed lattice (first and last cell)
        first = mesh.index2point(tuple([0] * nd))
        last = mesh.index2point(tuple(v - 1 for v in nn))
        out.append((tag + "inv-first-centre", sx.eq(list(first), [st.lo[a] + (st.hi[a] - st.lo[a]) / (2 * nn[a]) for a in range(nd)])))
        out.append((tag + "inv-last-centre", sx.eq(list(last), [st.hi[a] - (st.hi[a] - st.lo[a]) / (2 * nn[a]) for a in range(nd)])))
        out.append((tag + "sub-names", list(mesh.subregions) == list(st.subs)))
        for name, (l, h) in st.subs.items():
            if name in mesh.subregions:
                out += region_eq(sx, mesh.subregions[name], l, h, dims, st.units, tag=f"{tag}sub-{name}-image")
                out += region_inv(sx, mesh.subregions[name], tag=f"{tag}sub-{name}-inv")
    if kindobj == "field":
        nn = tuple(int(x) for x in obj.mesh.n)
        out.append((tag + "inv-array-shape", tuple(obj.array.shape) == (*nn, obj.nvdim)))
        out.append((tag + "inv-valid-shape", tuple(np.shape(obj.valid)) == nn))
    return out


def _same(sx, kindobj, x, y, tag):
    if kindobj == "region":
        return regions_same(sx, x, y, tag)
    if kindobj == "mesh":
        return meshes_same(sx, x, y, tag)
    return fields_same(sx, x, y, tag)


def h_history(sx, cfg):
    df = lib.load()
    kindobj = cfg["obj"]
    n = tuple(cfg["n"])
    nd = len(n)
    dims = DIMSETS[cfg.get("dims", "default")][nd]
    units = UNITS[nd]
    pmin, e, p1, p2 = region_inputs(sx, nd)
    c = [e[a] / n[a] for a in range(nd)]
    pmax = [pmin[a] + e[a] for a in range(nd)]
    boxes = sub_boxes(sx, cfg.get("subregions", "none"), pmin, c, n) if kindobj != "region" else {}
    nv = cfg.get("nvdim", 1)
    vals = sx.real_array("v", (*n, nv)) if kindobj == "field" else None
    valid = sx.bool_array("ok", n) if kindobj == "field" else None

    def build():
        region = df.Region(p1=p1, p2=p2, dims=dims, units=units)
        if kindobj == "region":
            return region
        subs = {name: df.Region(p1=lo, p2=hi) for name, (lo, hi, _, _) in boxes.items()}
        mesh = df.Mesh(region=region, n=n, subregions=subs)
        if kindobj == "mesh":
            return mesh
        vd = None if nv == 1 else list(dims[:nv])
        return df.Field(mesh, nvdim=nv, value=vals.copy(), valid=valid.copy(), vdims=vd, unit="T")

    try:
        obj = build()
    except (ValueError, TypeError) as ex:
        # pmin < pmax in every direction, lattice boxes as subregions: a valid object
        sx.check("valid-object-accepted", False, exc=f"{type(ex).__name__}: {str(ex)[:200]}")
        return
    st = Box(pmin, pmax, n, units, {k: (lo, hi) for k, (lo, hi, _, _) in boxes.items()})
    earlier = []  # objects left behind by copying steps: later steps on the copies must not reach them
    for i, spec in enumerate(cfg["steps"]):
        call, update, ok = _draw_step(sx, spec, i, nd, dims, st)
        tag = f"step{i}-{spec['kind']}:"
        legal = sx.decide(ok) if not isinstance(ok, bool) else ok
        if not legal:
            # degenerate step: both forms must refuse and leave the object as it was
            for form in (False, True):
                try:
                    call(obj, form)
                except ValueError:
                    sx.check(f"{tag}degenerate-refused-{'inplace' if form else 'copy'}", True)
                else:
                    sx.check(f"{tag}degenerate-refused-{'inplace' if form else 'copy'}", False)
                check_all(sx, [(n_ + ("-after-refusal-inplace" if form else "-after-refusal-copy"), cnd) for n_, cnd in _state_checks(sx, tag, kindobj, obj, st, dims)])
            return
        new = update(st)
        try:
            cp = call(obj, False)
        except (ValueError, TypeError) as ex:
            sx.check(tag + "legal-step-accepted", False, exc=f"{type(ex).__name__}: {str(ex)[:200]}")
            return
        # copying form: result is the image, the original is untouched
        check_all(sx, [(n_ + "-copy", cnd) for n_, cnd in _state_checks(sx, tag, kindobj, cp, new, dims)])
        check_all(sx, [(n_ + "-original-untouched", cnd) for n_, cnd in _state_checks(sx, tag, kindobj, obj, st, dims)])
        sx.check(tag + "copy-is-new-object", cp is not obj)
        if spec["inplace"]:
            ret = call(obj, True)
            sx.check(tag + "inplace-returns-self", ret is obj)
            check_all(sx, [(n_ + "-inplace", cnd) for n_, cnd in _state_checks(sx, tag, kindobj, obj, new, dims)])
            check_all(sx, _same(sx, kindobj, obj, cp, tag + "inplace==copy"))
        else:
            earlier.append((i, obj, st))
            obj = cp
        st = new
    for i, old, old_st in earlier:
        check_all(sx, [(n_ + "-still-untouched-at-the-end", cnd) for n_, cnd in _state_checks(sx, f"step{i}-original:", kindobj, old, old_st, dims)])


def h_malformed(sx, cfg):
    """malformed arguments: same exception in both forms, object unchanged"""
    df = lib.load()
    kindobj = cfg["obj"]
    n = (2, 3)
    nd = 2
    dims = DIMSETS["default"][nd]
    units = UNITS[nd]
    pmin, e, p1, p2 = region_inputs(sx, nd)
    pmax = [pmin[a] + e[a] for a in range(nd)]
    c = [e[a] / n[a] for a in range(nd)]
    boxes = sub_boxes(sx, "two", pmin, c, n)
    region = df.Region(p1=p1, p2=p2, dims=dims, units=units)
    if kindobj == "region":
        obj = region
    else:
        obj = df.Mesh(region=region, n=n, subregions={k: df.Region(p1=lo, p2=hi) for k, (lo, hi, _, _) in boxes.items()})
        if kindobj == "field":
            vals = sx.real_array("v", (*n, 3))
            obj = df.Field(obj, nvdim=3, value=vals, valid=sx.bool_array("ok", n))  # 3 components on a 2-d mesh: no mapping
    st = Box(pmin, pmax, n, units, {k: (lo, hi) for k, (lo, hi, _, _) in boxes.items()} if kindobj != "region" else {})
    x = sx.real("x")
    cases = []
    if kindobj in ("region", "mesh"):
        cases += [
            ("translate-wrong-length", lambda ip: obj.translate((x, x, x), inplace=ip), ValueError),
            ("translate-wrong-type", lambda ip: obj.translate("ab", inplace=ip), TypeError),
            ("translate-nested-columns", lambda ip: obj.translate([[1.0], [2.0]], inplace=ip), (ValueError, TypeError)),
            ("translate-nested-row", lambda ip: obj.translate([[1.0, 2.0]], inplace=ip), (ValueError, TypeError)),
            ("translate-2d-array", lambda ip: obj.translate(np.ones((2, 1)), inplace=ip), (ValueError, TypeError)),
            ("scale-wrong-length", lambda ip: obj.scale((x, x, x), inplace=ip), ValueError),
            ("scale-wrong-type", lambda ip: obj.scale("a", inplace=ip), TypeError),
            ("scale-bad-reference-length", lambda ip: obj.scale(2.0, reference_point=(x,), inplace=ip), ValueError),
            ("scale-zero", lambda ip: obj.scale(0, inplace=ip), ValueError),
            ("scale-zero-one-axis", lambda ip: obj.scale((2.0, 0.0), inplace=ip), ValueError),
        ]
    cases += [
        ("rotate-same-axis", lambda ip: obj.rotate90("x", "x", inplace=ip), ValueError),
        ("rotate-float-k", lambda ip: obj.rotate90("x", "y", k=0.5, inplace=ip), TypeError),
        ("rotate-unknown-axis", lambda ip: obj.rotate90("x", "q", inplace=ip), ValueError),
        ("rotate-bad-reference", lambda ip: obj.rotate90("x", "y", reference_point=(x,), inplace=ip), ValueError),
    ]
    if kindobj == "field":
        cases.append(("rotate-vector-without-mapping", lambda ip: obj.rotate90("x", "y", inplace=ip), RuntimeError))
    for name, call, exc in cases:
        for form in (False, True):
            ftag = "inplace" if form else "copy"
            try:
                call(form)
            except (ValueError, TypeError, RuntimeError) as ex:
                sx.check(f"{name}-{ftag}-raises", isinstance(ex, exc))
            else:
                sx.check(f"{name}-{ftag}-raises", False)
            check_all(sx, [(f"{name}-{ftag}-unchanged-{n_}", cnd) for n_, cnd in _state_checks(sx, "", kindobj, obj, st, dims)])


def h_float_degenerate(sx, cfg):
    """binary64 scalings whose image is (or is nearly) degenerate in floating point although the factor is non-zero (concrete;
    the rounding happens inside numpy): both forms take the same decision - either both refuse and the object is unchanged,
    or both succeed, the in-place object equals the copy and still has pmin < pmax in every direction"""
    df = lib.load()
    with sx.native():
        kindobj = cfg["obj"]
        for tag, p1, p2, n, factor, ref in (
            ("tiny-far-ref", (0.0, 0.0), (1.0, 2.0), (2, 4), 1e-20, (1e6, -1e6)),
            ("tiny-one-axis-far-ref", (0.0, 0.0), (1.0, 2.0), (2, 4), (1.0, 1e-20), (3.0, 1e6)),
            ("tiny-negative-far-ref", (-1.0, 5.0), (1.0, 7.0), (2, 2), -1e-18, (1e5, 1e5)),
            ("underflow", (0.0, 0.0), (1e-300, 1e-300), (1, 1), 1e-30, None),
            ("tiny-default-ref", (1e6, 1e6), (1e6 + 1, 1e6 + 2), (1, 2), 1e-20, None),
            ("small-but-fine", (0.0, 0.0), (1.0, 2.0), (2, 4), 1e-3, (10.0, -10.0)),
            ("1d-tiny-far-ref", 0.0, 1.0, 4, 1e-20, 1e6),
            # translations so far that an edge is absorbed by rounding ("factor" is the vector here)
            ("translate-huge-one-axis", (0.0, 0.0), (1.0, 2.0), (2, 2), (1e20, 0.0), None),
            ("translate-huge-negative", (0.0, 0.0), (1.0, 2.0), (2, 2), (-3e17, 4e16), None),
            ("translate-large-but-fine", (0.0, 0.0), (1.0, 2.0), (2, 2), (1e6, -1e6), None),
            ("translate-1d-huge", 0.0, 1.0, 4, 1e20, None),
        ):
            def make():
                r = df.Region(p1=p1, p2=p2)
                return r if kindobj == "region" else df.Mesh(region=r, n=n)
            kw = {} if ref is None else dict(reference_point=ref)
            step = lambda o, ip: o.scale(factor, inplace=ip, **kw)  # noqa: E731
            if tag.startswith("translate"):
                step = lambda o, ip: o.translate(factor, inplace=ip)  # noqa: E731
            a, b = make(), make()
            reg = (lambda o: o) if kindobj == "region" else (lambda o: o.region)
            before = (np.array(reg(b).pmin, dtype=float).copy(), np.array(reg(b).pmax, dtype=float).copy())
            try:
                cp = step(a, False)
                cp_exc = None
            except (ValueError, TypeError) as ex:
                cp, cp_exc = None, type(ex).__name__
            try:
                ret = step(b, True)
                ip_exc = None
            except (ValueError, TypeError) as ex:
                ret, ip_exc = None, type(ex).__name__
            sx.check(f"{tag}-same-decision", (cp_exc is None) == (ip_exc is None), copy=str(cp_exc), inplace=str(ip_exc),
                     pmin=str(reg(b).pmin), pmax=str(reg(b).pmax))
            if ip_exc is None:
                sx.check(f"{tag}-inplace-ordered", bool(np.all(np.asarray(reg(b).pmin) < np.asarray(reg(b).pmax))),
                         pmin=str(reg(b).pmin), pmax=str(reg(b).pmax))
                sx.check(f"{tag}-inplace-returns-self", ret is b)
                if cp_exc is None:
                    sx.check(f"{tag}-inplace-equals-copy", bool(np.array_equal(reg(b).pmin, reg(cp).pmin)) and bool(np.array_equal(reg(b).pmax, reg(cp).pmax)))
            else:
                sx.check(f"{tag}-refused-unchanged", bool(np.array_equal(reg(b).pmin, before[0])) and bool(np.array_equal(reg(b).pmax, before[1])))
            sx.check(f"{tag}-copy-leaves-original", bool(np.array_equal(reg(a).pmin, before[0])) and bool(np.array_equal(reg(a).pmax, before[1])))


CONCRETE_FACTORS = {1: [2, -1.5, 0.25], 2: [2, -1.5, (-2, 0.5), (0.75, 3)], 3: [-2, 0.5, (3, -1, 0.5), (-0.25, -4, 2)]}


def _steps(nd, quick, concrete_scale=False):
    """single steps"""
    out = []
    out.append(dict(kind="translate", **({"as": "list"} if nd > 1 else {})))
    if concrete_scale:
        for j, cv in enumerate(CONCRETE_FACTORS[nd]):
            out.append(dict(kind="scale", concrete=cv, **({"ref": "explicit"} if j % 2 else {})))
    else:
        out.append(dict(kind="scale"))
        out.append(dict(kind="scale", ref="explicit"))
        if nd > 1:
            out.append(dict(kind="scale", per_axis=True))
            out.append(dict(kind="scale", per_axis=True, ref="explicit"))
    if nd > 1:
        pairs = list(itertools.permutations(range(nd), 2))
        ks = [1, 4, -1] if quick else [1, 2, 3, -1, -2, 4, 0, -4]
        for i, (a, b) in enumerate(pairs if not quick else pairs[:2]):
            out.append(dict(kind="rotate", a=a, b=b, k=ks[i % len(ks)], ref="explicit" if i % 2 else "default"))
    return out


def tasks(tier):
    quick = tier == "quick"
    t = []
    shapes = {1: (3,), 2: (2, 3), 3: (2, 1, 3)}
    for obj in ("region", "mesh"):
        for nd in (1, 2, 3):
            singles = _steps(nd, quick, concrete_scale=(obj == "mesh"))
            for s in singles:
                for ip in (False, True):
                    t.append(dict(harness="h_history", cfg=dict(obj=obj, n=list(shapes[nd]), steps=[dict(s, inplace=ip)],
                                                                subregions="two" if obj == "mesh" else "none",
                                                                dims="renamed" if nd == 2 else "default")))
            # two-step histories: in-place state then any step, mixing forms
            pairs2 = list(itertools.product(range(len(singles)), repeat=2))
            if quick:
                stride = {("region", 1): 1, ("region", 2): 3, ("region", 3): 6, ("mesh", 1): 2, ("mesh", 2): 9, ("mesh", 3): 16}[(obj, nd)]
                pairs2 = pairs2[1::stride]
            elif obj == "mesh" and nd == 3:
                pairs2 = pairs2[::3]
            for q, (i1, i2) in enumerate(pairs2):
                forms = ((True, True), (True, False), (False, True))
                for ip1, ip2 in (forms if not quick else forms[q % 3: q % 3 + 1]):
                    t.append(dict(harness="h_history", cfg=dict(obj=obj, n=list(shapes[nd]),
                                                                steps=[dict(singles[i1], inplace=ip1), dict(singles[i2], inplace=ip2)],
                                                                subregions="two" if obj == "mesh" else "none"),
                                  limits=dict(wall_budget=900.0)))
            if not quick and nd == 2:
                for s1, s2, s3 in itertools.product(singles[:3], singles[3:6], singles[5:8]):
                    t.append(dict(harness="h_history", cfg=dict(obj=obj, n=list(shapes[nd]), steps=[dict(s1, inplace=True), dict(s2, inplace=False), dict(s3, inplace=True)],
                                                                subregions="two" if obj == "mesh" else "none"),
                                  limits=dict(wall_budget=3000.0, timeout_ms=300000)))
    # meshes without subregions: symbolic scale factors (any sign), single steps and scale-then-step histories
    for nd in (1, 2, 3):
        singles = _steps(nd, quick)
        for s1 in singles:
            for ip in (False, True):
                t.append(dict(harness="h_history", cfg=dict(obj="mesh", n=list(shapes[nd]), steps=[dict(s1, inplace=ip)], subregions="none")))
        for q, s2 in enumerate(singles if not quick else singles[::2]):
            t.append(dict(harness="h_history", cfg=dict(obj="mesh", n=list(shapes[nd]), steps=[dict(singles[1], inplace=True), dict(s2, inplace=bool(q % 2))],
                                                        subregions="none")))
    # a copying step followed by an in-place quarter turn of the copy (cell counts differ along the two axes): the original stays
    for nd in (2, 3):
        for first in (dict(kind="translate", **{"as": "list"}), dict(kind="scale", concrete=2)):
            t.append(dict(harness="h_history", cfg=dict(obj="mesh", n=list(shapes[nd]), steps=[dict(first, inplace=False), dict(kind="rotate", a=0, b=nd - 1, k=1, inplace=True)],
                                                        subregions="none")))
    # fields: rotations only (the only transformation a field offers), single and double
    for nd in (2, 3):
        pairs = list(itertools.permutations(range(nd), 2))
        for i, (a, b) in enumerate(pairs):
            for ip in (False, True):
                k = [1, 4, 2, 0, -1, -4][i % 6]
                t.append(dict(harness="h_history", cfg=dict(obj="field", n=list(shapes[nd]), nvdim=nd if i % 2 == 0 else 1,
                                                            steps=[dict(kind="rotate", a=a, b=b, k=k, inplace=ip, ref="explicit" if i % 2 else "default")],
                                                            subregions="two" if i % 3 == 0 else "none")))
        for (a, b), (a2, b2) in zip(pairs, pairs[1:] + pairs[:1]):
            t.append(dict(harness="h_history", cfg=dict(obj="field", n=list(shapes[nd]), nvdim=nd,
                                                        steps=[dict(kind="rotate", a=a, b=b, k=1, inplace=True), dict(kind="rotate", a=a2, b=b2, k=-1, inplace=True, ref="explicit")])))
            t.append(dict(harness="h_history", cfg=dict(obj="field", n=list(shapes[nd]), nvdim=1,
                                                        steps=[dict(kind="rotate", a=a, b=b, k=1, inplace=True), dict(kind="rotate", a=a, b=b, k=-1, inplace=False)])))
    for obj in ("region", "mesh", "field"):
        t.append(dict(harness="h_malformed", cfg=dict(obj=obj)))
    for obj in ("region", "mesh"):
        t.append(dict(harness="h_float_degenerate", cfg=dict(obj=obj)))
    return t
