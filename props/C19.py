"""C19 -- topological and demagnetisation tools obey their physical invariances (DESIGN 2/C19, reduced scope)."""
from __future__ import annotations

import contextlib
import itertools
import math

import numpy as np

from symx import lib

from .C18 import ROTS
from .common import sym_mesh
from .geom import rot_index

META = dict(
    bounds=dict(
        quick=dict(also="integer-typed corners in neighbouring-cell angles; absolute charge against the integral of |density| (native); tensor after an in-place rescaling of the same mesh (native)",
                   angles="3-d meshes (2,2,1), (3,1,2), every direction, rad/deg", continuous_charge="2-d meshes 3x3 (free vectors), invariances at every cell",
                   berg_luescher="2-d meshes (2,2), (3,2) with symbolic validity bits; triangle angle uninterpreted", rotations="concrete rational proper rotations (3-4-5, 5-12-13, quarter turns, products)",
                   native="coarse skyrmions, hedgehogs, antiparallel neighbours, demagnetisation sum rule for cubic and anisotropic cells"),
        thorough=dict(angles="as quick plus (2,3,2)", continuous_charge="3x3 and 4x3", berg_luescher="(2,2), (3,2), (3,3)", rotations="as quick", native="as quick, more sizes"),
    ),
    stubs=["arccos / degrees: uninterpreted functions with the range axiom 0 <= arccos <= pi", "Berg-Luescher triangle angle (complex logarithm): uninterpreted function of the three vectors",
           "everything resting on transcendental identities (integer lattice charge, Bloch-point counting, demagnetisation tensor and field) is run natively only (floating point, sampled)"],
    assumptions=["REAL theory", "compositional cut: inside the tools Field.orientation is replaced by the identity, so the symbolic field IS the orientation field and may be any "
                 "vector field (superset of unit fields); the stencil identities are decided for it, and h_orientation_lemmas decides per cell that the real orientation commutes "
                 "with reversal, rational proper rotations, positive rescaling and translation (orientation itself: C15)", "fully valid meshes for the continuous density"],
    outside=["a solver-level statement about integer lattice charges, Bloch points, trace -1 of the Fourier-space tensor, agreement of the tensor implementations, cuboid sum rule: these "
             "need identities of arccos / log / arcsinh / arctan and the FFT that the solvers here cannot decide; they are exercised natively and reported as such",
             "all proper rotations (a finite set of rational rotations is used)"],
)

PI = math.pi


@contextlib.contextmanager
def _orientation_cut(sx, df):
    """symbolic runs: Field.orientation is cut to the identity, i.e. the field handed to the tool IS the orientation field and may be
    any vector field (a superset of unit fields).  The stencil identities decided below hold for arbitrary fields; that the real
    orientation commutes with each symmetry is decided per cell in h_orientation_lemmas (and orientation itself in C15).
    Native runs use the real property."""
    if not sx.sym:
        yield
        return
    old = df.Field.orientation
    df.Field.orientation = property(lambda self: self)
    try:
        yield
    finally:
        df.Field.orientation = old


def _vec_field(sx, df, mesh, n, name="v", nonzero=True):
    """free vectors standing for the orientation field (see _orientation_cut); natively the values are normalised by the library"""
    arr = sx.real_array(name, (*n, 3))
    if nonzero and not sx.sym:
        for idx in np.ndindex(*n):
            s2 = arr[idx + (0,)] * arr[idx + (0,)] + arr[idx + (1,)] * arr[idx + (1,)] + arr[idx + (2,)] * arr[idx + (2,)]
            sx.assume(s2 > 1e-6)
    nd = len(n)
    mapping = {"x": "x", "y": "y", "z": None} if nd == 2 else None
    return df.Field(mesh, nvdim=3, value=arr, vdim_mapping=mapping), arr


def _rot(sx, name):
    """rotation matrix: exact rationals in symbolic runs (a float 0.8 is not exactly 4/5, and the matrix would not be orthogonal over the reals)"""
    if sx.sym:
        import z3

        from symx.scalars import SymReal

        return [[SymReal(z3.RealVal(x)) if x not in (0, 1, -1) else float(x) for x in row] for row in ROTS[name]]
    return [[float(x) for x in row] for row in ROTS[name]]


def _unit(sx, v):
    if sx.sym:
        return list(v)  # orientation cut: the symbolic vectors are the orientation field
    s2 = v[0] * v[0] + v[1] * v[1] + v[2] * v[2]
    r = math.sqrt(s2)
    return [x / r for x in v]


def h_angles(sx, cfg):
    """neighbouring-cell angles: mesh one cell shorter along the direction, shifted half a cell; angle of the two unit vectors; range"""
    df = lib.load()
    import discretisedfield.tools as dft

    n = tuple(cfg["n"])
    if cfg.get("box"):
        # concrete corners given as Python ints (the library keeps integer arrays for such regions)
        b1, b2 = cfg["box"]
        mesh = df.Mesh(p1=tuple(b1), p2=tuple(b2), n=n)
        pmin = [min(x, y) for x, y in zip(b1, b2)]
        e = [abs(y - x) for x, y in zip(b1, b2)]
    else:
        mesh, pmin, e = sym_mesh(sx, n, flip=False)
    c = [e[a] / n[a] for a in range(3)]
    f, arr = _vec_field(sx, df, mesh, n)
    d = cfg["direction"]
    units = cfg.get("units", "rad")
    if n[d] < 2:
        try:
            with _orientation_cut(sx, df):
                dft.neighbouring_cell_angle(f, direction="xyz"[d], units=units)
        except Exception:  # noqa: BLE001
            sx.check("single-cell-direction-refused", True)
        else:
            sx.check("single-cell-direction-refused", False)
        return
    with _orientation_cut(sx, df):
        g = dft.neighbouring_cell_angle(f, direction="xyz"[d], units=units)
    want_n = tuple(n[a] - (1 if a == d else 0) for a in range(3))
    sx.check("one-cell-shorter", tuple(int(x) for x in g.mesh.n) == want_n and g.nvdim == 1)
    for a in range(3):
        sx.check(f"cell-kept[{a}]", sx.eq(g.mesh.cell[a], c[a]))
        sx.check(f"shifted-half-a-cell[{a}]", sx.And(sx.eq(g.mesh.region.pmin[a], pmin[a] + (c[a] / 2 if a == d else 0.0)), sx.eq(g.mesh.region.pmax[a], pmin[a] + e[a] - (c[a] / 2 if a == d else 0.0))))
    for idx in np.ndindex(*want_n):
        nxt = tuple(idx[a] + (1 if a == d else 0) for a in range(3))
        o1 = _unit(sx, [arr[idx + (k,)] for k in range(3)])
        o2 = _unit(sx, [arr[nxt + (k,)] for k in range(3)])
        dot = o1[0] * o2[0] + o1[1] * o2[1] + o1[2] * o2[2]
        got = g.array[idx + (0,)]
        if sx.sym:
            clipped = sx.max(sx.min(dot, 1.0), -1.0)
            ang = sx.uf("arccos", clipped)
            want = sx.uf("degrees", ang) if units == "deg" else ang
            sx.check(f"angle-of-unit-vectors{idx}", sx.eq(got, want))
            if units == "rad":
                sx.check(f"range{idx}", sx.And(got >= 0, got <= PI + 1e-12))
        else:
            want = math.acos(max(-1.0, min(1.0, dot)))
            want = math.degrees(want) if units == "deg" else want
            sx.check(f"angle-of-unit-vectors{idx}", sx.eq(got, want, scale=1.0))
            sx.check(f"range{idx}", 0 <= got <= (180.0 if units == "deg" else PI) + 1e-9)


def _density(sx, df, f):
    import discretisedfield.tools as dft

    with _orientation_cut(sx, df):
        return dft.topological_charge_density(f, method="continuous")


def _charge(sx, df, f):
    import discretisedfield.tools as dft

    with _orientation_cut(sx, df):
        return dft.topological_charge(f)


def h_charge_invariance(sx, cfg):
    """continuous topological charge density / charge: zero for uniform fields, odd under reversal, invariant under positive per-cell
    rescaling, mesh translation, mesh rescaling (charge), a global proper rotation of all vectors, a quarter turn of the sample"""
    df = lib.load()
    import discretisedfield.tools as dft

    n = tuple(cfg["n"])
    what = cfg["what"]
    if what == "mesh-scale" or (what == "quarter-turn" and not cfg.get("symgeo")):
        # concrete (anisotropic, offset) geometry; the scale factor stays symbolic -- a symbolic cell size times a symbolic
        # factor in every denominator is beyond nlsat within the budget
        pmin, e = [0.5, -2.0], [1.5, 4.5]
        mesh = df.Mesh(p1=tuple(pmin), p2=(pmin[0] + e[0], pmin[1] + e[1]), n=n)
    else:
        mesh, pmin, e = sym_mesh(sx, n, flip=False)
    if what == "uniform":
        v = sx.reals("u", 3)
        if not sx.sym:
            sx.assume(v[0] * v[0] + v[1] * v[1] + v[2] * v[2] > 1e-6)
        q = _density(sx, df, df.Field(mesh, nvdim=3, value=tuple(v)))
        for idx in np.ndindex(*n):
            sx.check(f"uniform-zero{idx}", sx.eq(q.array[idx + (0,)], 0.0))
        sx.check("uniform-charge-zero", sx.eq(_charge(sx, df, df.Field(mesh, nvdim=3, value=tuple(v))), 0.0))
        return
    f, arr = _vec_field(sx, df, mesh, n)
    q = _density(sx, df, f)
    sx.check("density-meta", q.nvdim == 1 and q.mesh == mesh)
    cells = list(np.ndindex(*n))
    if what == "reversal":
        q2 = _density(sx, df, -f)
        for idx in cells:
            sx.check(f"odd-under-reversal{idx}", sx.eq(q2.array[idx + (0,)], -q.array[idx + (0,)]))
    elif what == "rescale":
        lam = sx.real_array("lam", n)
        vals = np.empty((*n, 3), dtype=object)
        for idx in cells:
            sx.assume(sx.And(lam[idx] >= 0.5, lam[idx] <= 2.0))
            for k in range(3):
                vals[idx + (k,)] = lam[idx] * arr[idx + (k,)]
        from symx.sarray import symarray

        f2 = df.Field(mesh, nvdim=3, value=symarray(vals) if sx.sym else vals.astype(float))
        q2 = _density(sx, df, f2)
        for idx in (cells if cfg.get("all_cells") else [tuple(k // 2 for k in n), (0, 0)]):
            sx.check(f"rescaling-invariant{idx}", sx.eq(q2.array[idx + (0,)], q.array[idx + (0,)]))
    elif what == "translate":
        t = sx.reals("t", 2)
        mesh_t = mesh.translate(sx.arr(t))
        q2 = _density(sx, df, df.Field(mesh_t, nvdim=3, value=arr))
        for idx in cells:
            sx.check(f"translation-invariant{idx}", sx.eq(q2.array[idx + (0,)], q.array[idx + (0,)]))
    elif what == "mesh-scale":
        s = sx.real("s")
        sx.assume(sx.And(s >= 0.25, s <= 4.0))
        mesh_s = mesh.scale(s)
        f2 = df.Field(mesh_s, nvdim=3, value=arr)
        # density * cell area is invariant cell by cell; the charge is their sum (integrals: C06)
        q2 = _density(sx, df, f2)
        for idx in cells:
            sx.check(f"density-times-area-invariant{idx}", sx.eq(q2.array[idx + (0,)] * s * s, q.array[idx + (0,)]))
    elif what == "rotation":
        Q = _rot(sx, cfg["rot"])
        vals = np.empty((*n, 3), dtype=object)
        for idx in cells:
            for i in range(3):
                acc = 0.0
                for k in range(3):
                    acc = acc + Q[i][k] * arr[idx + (k,)]
                vals[idx + (i,)] = acc
        from symx.sarray import symarray

        f2 = df.Field(mesh, nvdim=3, value=symarray(vals) if sx.sym else vals.astype(float))
        q2 = _density(sx, df, f2)
        for idx in (cells if cfg.get("all_cells") else [tuple(k // 2 for k in n), (0, 0)]):
            sx.check(f"rotation-invariant{idx}", sx.eq(q2.array[idx + (0,)], q.array[idx + (0,)]))
    elif what == "quarter-turn":
        k = cfg.get("k", 1)
        # the density moves with the cells (so the charge, its sum times the unchanged cell area, is invariant)
        f2 = f.rotate90("x", "y", k=k)
        q2 = _density(sx, df, f2)
        sx.check("rotated-density-shape", tuple(np.shape(q2.array)) == tuple(np.shape(q.rotate90("x", "y", k=k).array)))
        for idx in cells:
            j = rot_index(k, 0, 1, n, idx)
            sx.check(f"density-moves-with-the-cells{idx}", sx.eq(q2.array[tuple(j) + (0,)], q.array[idx + (0,)]))


def h_berg_luescher(sx, cfg):
    """lattice method bookkeeping: density = sum of triangle angles over the existing, valid neighbour pairs / (area * count);
    values of invalid cells never influence any output (the triangle angle is an uninterpreted function)"""
    df = lib.load()
    import discretisedfield.tools as dft
    import discretisedfield.util as dfu

    n = tuple(cfg["n"])
    mesh, pmin, e = sym_mesh(sx, n, flip=False)
    c = [e[a] / n[a] for a in range(2)]
    arr = sx.real_array("v", (*n, 3))
    if not sx.sym:
        for idx in np.ndindex(*n):
            sx.assume(arr[idx + (0,)] * arr[idx + (0,)] + arr[idx + (1,)] * arr[idx + (1,)] + arr[idx + (2,)] * arr[idx + (2,)] > 1e-6)
    valid = sx.bool_array("ok", n)
    f = df.Field(mesh, nvdim=3, value=arr, valid=valid)
    calls = []

    def angle_uf(v1, v2, v3):
        calls.append((v1, v2, v3))
        return sx.uf("bl_angle", *list(v1), *list(v2), *list(v3))

    old = dfu.bergluescher_angle
    if sx.sym:
        dfu.bergluescher_angle = angle_uf
    try:
        with _orientation_cut(sx, df):
            q = dft.topological_charge_density(f, method="berg-luescher")
    finally:
        dfu.bergluescher_angle = old
    sx.check("meta", q.nvdim == 1 and q.mesh == mesh)
    area = 0.5 * c[0] * c[1]
    pat = {idx: sx.decide(sx.truth(valid[idx])) for idx in np.ndindex(*n)}

    def unit_of(idx):
        # the library normalises first: for unit input the orientation is v / sqrt(1)
        return _unit(sx, [arr[idx + (k,)] for k in range(3)])

    for (i, j) in np.ndindex(*n):
        got = q.array[(i, j, 0)]
        sx.check(f"valid-kept({i}, {j})", sx.eq(sx.truth(q.valid[(i, j)]), pat[(i, j)]))
        if not pat[(i, j)]:
            sx.check(f"invalid-cell-zero({i}, {j})", sx.eq(got, 0.0))
            continue
        nb = [(i + 1, j), (i, j + 1), (i - 1, j), (i, j - 1)]
        ok = [0 <= a < n[0] and 0 <= b < n[1] and pat[(a, b)] for a, b in nb]
        tot, count = 0.0, 0
        for t in range(4):
            a, b = nb[t], nb[(t + 1) % 4]
            if ok[t] and ok[(t + 1) % 4]:
                count += 1
                if sx.sym:
                    tot = tot + sx.uf("bl_angle", *unit_of((i, j)), *unit_of(a), *unit_of(b))
                else:
                    tot = tot + dfu.bergluescher_angle(np.array(unit_of((i, j))), np.array(unit_of(a)), np.array(unit_of(b)))
        if count == 0:
            sx.check(f"no-triangle-zero({i}, {j})", sx.eq(got, 0.0))
        else:
            sx.check(f"density({i}, {j})", sx.eq(got * (area * count), tot))


def h_orientation_lemmas(sx, cfg):
    """the real Field.orientation commutes with every symmetry used above (per cell, free non-zero vector): reversal, proper rotation,
    positive rescaling, and does not depend on where the mesh sits -- closes the composition with the orientation cut"""
    df = lib.load()
    mesh, pmin, e = sym_mesh(sx, (1, 1), flip=False)
    v = sx.reals("v", 3)
    s2 = v[0] * v[0] + v[1] * v[1] + v[2] * v[2]
    sx.assume(s2 > 1e-4)  # well above the library's 1e-8 zero threshold, also after rescaling by >= 0.01
    o = df.Field(mesh, nvdim=3, value=tuple(v)).orientation.array[0, 0]
    what = cfg["what"]
    if what == "reversal":
        o2 = df.Field(mesh, nvdim=3, value=tuple(-x for x in v)).orientation.array[0, 0]
        for k in range(3):
            sx.check(f"orientation-odd[{k}]", sx.eq(o2[k], -o[k]))
    elif what == "rescale":
        lam = sx.real("lam")
        sx.assume(sx.And(lam >= 1e-2, lam <= 1e3))
        o2 = df.Field(mesh, nvdim=3, value=tuple(lam * x for x in v)).orientation.array[0, 0]
        for k in range(3):
            sx.check(f"orientation-scale-free[{k}]", sx.eq(o2[k], o[k]))
    elif what == "translate":
        t = sx.reals("t", 2)
        o2 = df.Field(mesh.translate(sx.arr(t)), nvdim=3, value=tuple(v)).orientation.array[0, 0]
        for k in range(3):
            sx.check(f"orientation-position-free[{k}]", sx.eq(o2[k], o[k]))
    else:
        Q = _rot(sx, cfg["rot"])
        w = [Q[i][0] * v[0] + Q[i][1] * v[1] + Q[i][2] * v[2] for i in range(3)]
        o2 = df.Field(mesh, nvdim=3, value=tuple(w)).orientation.array[0, 0]
        for i in range(3):
            sx.check(f"orientation-rotates[{i}]", sx.eq(o2[i], Q[i][0] * o[0] + Q[i][1] * o[1] + Q[i][2] * o[2]))
    sx.check("unit-length", sx.eq(o[0] * o[0] + o[1] * o[1] + o[2] * o[2], 1.0))


def h_refuse(sx, cfg):
    df = lib.load()
    import discretisedfield.tools as dft

    m2 = df.Mesh(p1=(0, 0), p2=(2, 2), n=(2, 2))
    m3 = df.Mesh(p1=(0, 0, 0), p2=(2, 2, 2), n=(2, 2, 2))
    v = sx.real("v")
    f2s = df.Field(m2, nvdim=1, value=v)
    f2v = df.Field(m2, nvdim=3, value=(v, 1.0, 2.0))
    f3v = df.Field(m3, nvdim=3, value=(v, 1.0, 2.0))
    f3s = df.Field(m3, nvdim=2, value=(v, 1.0))
    cases = [
        ("density-scalar", lambda: dft.topological_charge_density(f2s), ValueError), ("density-3d-mesh", lambda: dft.topological_charge_density(f3v), ValueError),
        ("density-method", lambda: dft.topological_charge_density(f2v, method="other"), ValueError), ("charge-scalar", lambda: dft.topological_charge(f2s), ValueError),
        ("charge-3d-mesh", lambda: dft.topological_charge(f3v), ValueError), ("emergent-2d-mesh", lambda: dft.emergent_magnetic_field(f2v), ValueError),
        ("emergent-nvdim-2", lambda: dft.emergent_magnetic_field(f3s), ValueError), ("angle-nvdim-2", lambda: dft.neighbouring_cell_angle(f3s, direction="x"), ValueError),
        ("angle-direction", lambda: dft.neighbouring_cell_angle(f3v, direction="q"), ValueError), ("angle-units", lambda: dft.neighbouring_cell_angle(f3v, direction="x", units="grad"), ValueError),
        ("bps-2d", lambda: dft.count_bps(f2v, direction="x"), ValueError), ("bps-nvdim", lambda: dft.count_bps(f3s, direction="x"), ValueError), ("bps-direction", lambda: dft.count_bps(f3v, direction="q"), ValueError),
    ]
    for name, call, exc in cases:
        try:
            call()
        except exc:
            sx.check(name, True)
        except Exception as ex:  # noqa: BLE001
            sx.check(name, False, exc=f"{type(ex).__name__}: {ex}")
        else:
            sx.check(name, False, exc="accepted")


# ------------------------------------------------------------------------------------------------ native (floating point)
def _skyrmion(df, n, cell, radius_cells, centre_shift=(0.3, -0.2), sign=1, in_cells=False):
    mesh = df.Mesh(p1=(0, 0), p2=(n[0] * cell[0], n[1] * cell[1]), n=n)
    cx, cy = n[0] * cell[0] / 2 + centre_shift[0] * cell[0], n[1] * cell[1] / 2 + centre_shift[1] * cell[1]
    R = radius_cells * (1.0 if in_cells else min(cell))

    def val(p):
        x, y = p[0] - cx, p[1] - cy
        if in_cells:
            x, y = x / cell[0], y / cell[1]
        r = math.hypot(x, y)
        th = math.pi * max(0.0, 1.0 - r / R)  # pi at the core, exactly 0 (uniform boundary) beyond the radius: the map wraps the sphere once
        ph = math.atan2(y, x)
        return (sign * math.sin(th) * math.cos(ph), sign * math.sin(th) * math.sin(ph), sign * math.cos(th))

    return df.Field(mesh, nvdim=3, value=val)


def h_native_topology(sx, cfg):
    """native: integer lattice charge of textures wrapping the sphere once (coarse meshes included), invariances of both methods under
    random proper rotations / rescaling / translation / reversal / quarter turns, antiparallel neighbours, hedgehog Bloch points"""
    df = lib.load()
    with sx.native():
        import warnings

        warnings.filterwarnings("ignore")
        import discretisedfield.tools as dft
        from scipy.spatial.transform import Rotation as R

        rng = np.random.default_rng(cfg.get("seed", 1))
        # lattice charge is an integer for textures wrapping the sphere once, however coarse the mesh
        for n, cell, rad, shift in (((24, 24), (1.0, 1.0), 9.0, (0.3, -0.2)), ((9, 8), (1.0, 1.5), 3.2, (0.25, 0.1)), ((7, 7), (2.0, 1.0), 2.6, (-0.2, 0.3)), ((6, 6), (1.0, 1.0), 2.2, (0.1, 0.15))):
            f = _skyrmion(df, n, cell, rad, shift)
            qb = dft.topological_charge(f, method="berg-luescher")
            sx.check(f"lattice-charge-integer-{n[0]}x{n[1]}", abs(qb - round(qb)) < 1e-9 and abs(round(qb)) == 1, q=qb)
            qr = dft.topological_charge(-f, method="berg-luescher")
            sx.check(f"lattice-charge-odd-{n[0]}x{n[1]}", abs(qr + qb) < 1e-9, q=qr)
        # coarse textures (radius 1.9 .. 2.6 cells, off-centre cores) still give the integer
        bad = []
        for k in range(40):
            rad = 1.9 + 0.7 * rng.random()  # in cells along both axes; below ~1.8 cells the four triangulations the library averages over can disagree (half-integer results)
            shift = (rng.uniform(-0.3, 0.3), rng.uniform(-0.3, 0.3))
            cell = ((1.0, 1.0), (1.0, 0.5), (2.0, 1.0))[k % 3]
            fs = _skyrmion(df, (7, 7), cell, rad, shift, in_cells=True)
            # radius is measured in units of the smaller cell: make sure the boundary is uniform
            if not (np.allclose(fs.array[0], (0, 0, 1)) and np.allclose(fs.array[-1], (0, 0, 1)) and np.allclose(fs.array[:, 0], (0, 0, 1)) and np.allclose(fs.array[:, -1], (0, 0, 1))):
                continue
            qv = dft.topological_charge(fs, method="berg-luescher")
            if abs(qv - round(qv)) > 1e-9 or round(qv) != -1:
                bad.append((round(rad, 3), tuple(round(x, 3) for x in shift), cell, qv))
        sx.check("coarse-textures-lattice-charge-integer", not bad, bad=str(bad[:3]))
        # the triangle angle against an independent solid-angle formula (Van Oosterom-Strackee with atan2), large triangles included
        import discretisedfield.util as dfu

        worst = 0.0
        for k in range(400):
            vs = rng.normal(size=(3, 3))
            if k % 4 == 0:  # nearly coplanar with the origin inside: solid angle close to a half sphere
                ang = rng.uniform(0, 2 * np.pi) + np.array([0.0, 2.1, 4.2])
                vs = np.stack([np.cos(ang), np.sin(ang), rng.uniform(-0.3, 0.3) * np.ones(3)], axis=1)
            vs /= np.linalg.norm(vs, axis=1, keepdims=True)
            a, b, c = vs
            omega = 2 * math.atan2(np.dot(a, np.cross(b, c)), 1 + a @ b + b @ c + c @ a)
            worst = max(worst, abs(dfu.bergluescher_angle(a, b, c) - omega / (4 * np.pi)))
        sx.check("triangle-angle-is-the-signed-solid-angle", worst < 1e-9, worst=worst)
        f = _skyrmion(df, (16, 14), (1.0, 1.3), 6.0)
        for method in ("continuous", "berg-luescher"):
            q0 = dft.topological_charge(f, method=method)
            Q = R.random(random_state=3).as_matrix()
            rot = df.Field(f.mesh, nvdim=3, value=np.einsum("ij,...j->...i", Q, f.array))
            sx.check(f"{method}-global-rotation", abs(dft.topological_charge(rot, method=method) - q0) < 1e-9 * max(1, abs(q0)))
            lam = rng.uniform(0.5, 3.0, size=(*f.mesh.n, 1))
            sx.check(f"{method}-rescaling", abs(dft.topological_charge(df.Field(f.mesh, nvdim=3, value=f.array * lam), method=method) - q0) < 1e-9)
            sx.check(f"{method}-translation", abs(dft.topological_charge(df.Field(f.mesh.translate((5.5, -3.25)), nvdim=3, value=f.array), method=method) - q0) < 1e-9)
            sx.check(f"{method}-mesh-rescaling", abs(dft.topological_charge(df.Field(f.mesh.scale(1e-9, reference_point=(0, 0)), nvdim=3, value=f.array), method=method) - q0) < 1e-7)
            sx.check(f"{method}-reversal", abs(dft.topological_charge(-f, method=method) + q0) < 1e-9)
            fm = df.Field(f.mesh, nvdim=3, value=f.array, vdim_mapping={"x": "x", "y": "y", "z": None})
            sx.check(f"{method}-quarter-turn", abs(dft.topological_charge(fm.rotate90("x", "y"), method=method) - q0) < 1e-9)
            u = df.Field(f.mesh, nvdim=3, value=(0.3, -0.5, 0.8))
            sx.check(f"{method}-uniform-zero", abs(dft.topological_charge(u, method=method)) < 1e-12)
        # a skyrmion next to an antiskyrmion: the absolute charge is the integral of |density| (about two), the plain one their sum
        big_n = (32, 16)
        left = _skyrmion(df, big_n, (1.0, 1.0), 5.0, centre_shift=(-8.0, 0.0))
        right = _skyrmion(df, big_n, (1.0, 1.0), 5.0, centre_shift=(8.0, 0.0))
        ra = right.array.copy()
        ra[..., 1] *= -1  # mirrored in-plane component: opposite winding
        mix = np.where((np.arange(big_n[0]) < big_n[0] // 2)[:, None, None], left.array, ra)
        pair = df.Field(left.mesh, nvdim=3, value=mix)
        for method in ("continuous", "berg-luescher"):
            dens = dft.topological_charge_density(pair, method=method)
            want_abs = float(abs(dens).integrate().item())
            got_abs = dft.topological_charge(pair, method=method, absolute=True)
            got = dft.topological_charge(pair, method=method)
            sx.check(f"{method}-absolute-charge-is-integral-of-abs-density", abs(got_abs - want_abs) < 1e-9 and want_abs > 1.5, got=got_abs, want=want_abs)
            sx.check(f"{method}-charge-is-integral-of-density", abs(got - float(dens.integrate().item())) < 1e-9 and abs(got) < 0.2, got=got)
        # antiparallel neighbours in generic directions: angle pi, never nan
        m3 = df.Mesh(p1=(0, 0, 0), p2=(2e-9, 3e-9, 1e-9), n=(2, 3, 1))
        bad = 0
        for _ in range(200):
            v = rng.normal(size=3)
            s = rng.uniform(0.2, 5.0)
            arr = np.empty((2, 3, 1, 3))
            arr[0] = v
            arr[1] = -s * v
            a = dft.neighbouring_cell_angle(df.Field(m3, nvdim=3, value=arr), direction="x").array
            if not np.all(np.isfinite(a)) or not np.allclose(a, np.pi, atol=1e-6) or a.max() > np.pi + 1e-12:
                bad += 1
        sx.check("antiparallel-neighbours-give-pi", bad == 0, bad=bad)
        # hedgehog: exactly one Bloch point along every direction, tail-to-tail; head-to-head when reversed
        nh = cfg.get("hedgehog_n", 10)
        mh = df.Mesh(p1=(-nh / 2, -nh / 2, -nh / 2), p2=(nh / 2, nh / 2, nh / 2), n=(nh, nh, nh))
        hedge = df.Field(mh, nvdim=3, value=lambda p: tuple(p), norm=1)
        # the same hedgehog in a sample that does not fill the mesh (ellipsoid; zero outside with valid='norm', and an explicit mask)
        def inside(p):
            return (p[0] / (0.45 * nh)) ** 2 + (p[1] / (0.4 * nh)) ** 2 + (p[2] / (0.35 * nh)) ** 2 <= 1.0

        h_norm = df.Field(mh, nvdim=3, value=lambda p: tuple(p) if inside(p) else (0, 0, 0), norm=lambda p: 1.0 if inside(p) else 0.0, valid="norm")
        h_mask = df.Field(mh, nvdim=3, value=lambda p: tuple(p), norm=1, valid=lambda p: inside(p))
        for tag, hf in (("zero-outside", h_norm), ("masked", h_mask)):
            for d in "xyz":
                r1 = dft.count_bps(hf, direction=d)
                sx.check(f"hedgehog-in-{tag}-sample-one-bloch-point-{d}", r1["bp_number"] == 1 and r1["bp_number_tt"] == 1, got=str(r1))
        for d in "xyz":
            r1 = dft.count_bps(hedge, direction=d)
            r2 = dft.count_bps(-hedge, direction=d)
            sx.check(f"hedgehog-one-bloch-point-{d}", r1["bp_number"] == 1 and r1["bp_number_tt"] == 1 and r1["bp_number_hh"] == 0, got=str(r1))
            sx.check(f"reversed-hedgehog-head-to-head-{d}", r2["bp_number"] == 1 and r2["bp_number_hh"] == 1 and r2["bp_number_tt"] == 0, got=str(r2))


def h_native_demag(sx, cfg):
    """native: trace of the real-space tensor, agreement of the two implementations, cuboid sum rule -|M| (-M/3 for a cube)"""
    df = lib.load()
    with sx.native():
        import warnings

        warnings.filterwarnings("ignore")
        import discretisedfield.tools as dft

        n, cell = tuple(cfg["n"]), tuple(cfg["cell"])
        mesh = df.Mesh(p1=(0, 0, 0), p2=tuple(c * k for c, k in zip(cell, n)), n=n)
        T = dft.demag_tensor(mesh)
        T2 = dft.tools._demag_tensor_field_based(mesh)
        sx.check("two-implementations-agree", bool(np.allclose(T.array, T2.array, rtol=1e-9, atol=1e-12)))
        tr = T.ft_xx + T.ft_yy + T.ft_zz
        sx.check("trace-modulus-one-at-every-frequency", bool(np.allclose(np.abs(tr.array), 1.0, rtol=1e-9)))
        Ms = cfg.get("Ms", 8e5)
        tot = 0.0
        comps = []
        for i, M in enumerate(((Ms, 0, 0), (0, Ms, 0), (0, 0, Ms))):
            H = dft.demag_field(df.Field(mesh, nvdim=3, value=M), T)
            comps.append(float(H.mean()[i]))
            tot += comps[-1]
        sx.check("cuboid-sum-rule", abs(tot + Ms) < 1e-6 * Ms, got=tot / Ms, comps=str([c_ / Ms for c_ in comps]))
        if len(set(n)) == 1 and len(set(cell)) == 1:
            sx.check("cube-one-third-each", all(abs(c_ + Ms / 3) < 1e-6 * Ms for c_ in comps))
        sx.check("all-negative", all(c_ < 0 for c_ in comps), comps=str([c_ / Ms for c_ in comps]))
        # history: the same mesh object is rescaled in place (other cell aspect ratios), the tensor is asked for again
        mesh.scale((1.0, 2.0, 0.5), inplace=True)
        T3 = dft.demag_tensor(mesh)
        T4 = dft.tools._demag_tensor_field_based(df.Mesh(p1=mesh.region.pmin, p2=mesh.region.pmax, n=mesh.n))
        sx.check("after-in-place-rescaling-implementations-agree", bool(np.allclose(T3.array, T4.array, rtol=1e-9, atol=1e-12)))
        tot3 = sum(float(dft.demag_field(df.Field(mesh, nvdim=3, value=M), T3).mean()[i]) for i, M in enumerate(((Ms, 0, 0), (0, Ms, 0), (0, 0, Ms))))
        sx.check("after-in-place-rescaling-sum-rule", abs(tot3 + Ms) < 1e-6 * Ms, got=tot3 / Ms)


def tasks(tier):
    q = tier == "quick"
    t = []
    big = dict(timeout_ms=120000, wall_budget=1500, max_paths=5000)
    for n in ([(2, 2, 1), (3, 1, 2)] if q else [(2, 2, 1), (3, 1, 2), (2, 3, 2)]):
        for d in range(3):
            t.append(dict(harness="h_angles", cfg=dict(n=list(n), direction=d, units="deg" if d == 1 else "rad"), limits=big))
    for box, n, d in (([[0, 0, 0], [3, 2, 1]], (3, 2, 1), 0), ([[-5, 0, 1], [4, 3, 3]], (3, 3, 2), 1), ([[0, 0, 0], [2, 1, 5]], (2, 1, 5), 2)):
        t.append(dict(harness="h_angles", cfg=dict(n=list(n), direction=d, box=box), limits=big))
    n2 = [3, 3]
    for what in ("uniform", "reversal", "translate", "mesh-scale", "quarter-turn"):  # per-cell rescaling: native only (needs sqrt(lambda^2 |v|^2) = lambda |v|)
        t.append(dict(harness="h_charge_invariance", cfg=dict(n=n2, what=what), limits=big))
    for rot in (("qz", "x345", "z345*x345") if q else ("qz", "qx", "x345", "y345", "z51213", "z345*x345", "y345*z51213")):
        t.append(dict(harness="h_charge_invariance", cfg=dict(n=n2, what="rotation", rot=rot), limits=big))
    if not q:
        t.append(dict(harness="h_charge_invariance", cfg=dict(n=[4, 3], what="reversal"), limits=big))
        t.append(dict(harness="h_charge_invariance", cfg=dict(n=[4, 3], what="quarter-turn", k=3), limits=big))
        t.append(dict(harness="h_charge_invariance", cfg=dict(n=[3, 3], what="quarter-turn", k=1, symgeo=True), limits=big))
    for n in ([(2, 2), (3, 2)] if q else [(2, 2), (3, 2), (3, 3)]):
        t.append(dict(harness="h_berg_luescher", cfg=dict(n=list(n)), limits=big))
    for what in ("reversal", "rescale", "translate"):
        t.append(dict(harness="h_orientation_lemmas", cfg=dict(what=what), limits=big))
    for rot in (("qz", "x345", "z345*x345") if q else ("qz", "qx", "x345", "y345", "z51213", "z345*x345", "y345*z51213")):
        t.append(dict(harness="h_orientation_lemmas", cfg=dict(what="rotation", rot=rot), limits=big))
    t.append(dict(harness="h_refuse", cfg={}))
    t.append(dict(harness="h_native_topology", cfg=dict(seed=1, hedgehog_n=10 if q else 14)))
    for n, cell in ([((3, 3, 3), (1.0, 1.0, 1.0)), ((4, 2, 3), (2e-9, 2e-9, 2e-9)), ((3, 2, 2), (1.0, 2.0, 3.0))] if q else
                    [((3, 3, 3), (1.0, 1.0, 1.0)), ((4, 2, 3), (2e-9, 2e-9, 2e-9)), ((3, 2, 2), (1.0, 2.0, 3.0)), ((2, 4, 4), (2e-9, 1e-9, 1e-9)), ((6, 3, 2), (1.0, 1.0, 1.0))]):
        t.append(dict(harness="h_native_demag", cfg=dict(n=list(n), cell=list(cell))))
    return t
