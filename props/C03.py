"""C03 -- field algebra is cell-wise numpy algebra on one mesh; operands stay untouched (DESIGN 2/C03)."""
from __future__ import annotations

import itertools

import numpy as np

from symx import lib
from symx.sarray import symarray

from .common import DIMSETS, sym_mesh
from .geom import fields_same

META = dict(
    bounds=dict(
        quick=dict(also="components re-read after in-place edits; integer-typed field with fractional constants in angle (native)",
                   mesh_n="(2,), (2,1), (1,2,1)", nvdim="1..3", depth="<=2 (strided subset of depth 2)",
                   leaves="vector field f, field g, scalar field s, symbolic number, symbolic constant vector, per-cell array",
                   operators="+ - * / **2 **3 unary- unary+ abs dot cross angle << real imag conjugate np.add np.multiply np.sin np.negative",
                   validity="symbolic bit per cell and per field"),
        thorough=dict(mesh_n="(2,), (2,2), (2,1,2), (1,2,1,1)", nvdim="1..4", depth="<=2 (all), depth 3 (strided)", leaves="as quick", operators="as quick",
                      validity="symbolic bit per cell and per field"),
    ),
    stubs=["sin / arccos / complex phase are uninterpreted functions (congruence only)"],
    assumptions=["REAL theory", "divisors are assumed non-zero (the statement is about defined expressions)",
                 "vectors fed to angle() are assumed non-zero"],
    outside=["real exponents", "NaN/inf semantics", "integer overflow", "depth > 3"],
)

CUSTOM = {1: None, 2: ["a", "b"], 3: ["mx", "my", "mz"], 4: ["p", "q", "r", "t"]}


# --------------------------------------------------------------------------- expression trees
class Env:
    def __init__(self, sx, df, mesh, n, nv, labels):
        self.sx, self.df, self.mesh, self.n, self.nv = sx, df, mesh, n, nv
        self.fields = {}
        self.cells = list(np.ndindex(*n))
        self.nonzero = []
        self.labels = labels

    def field(self, name, nv, vd=None, mapping=None):
        if name in self.fields:
            return self.fields[name]
        sx = self.sx
        arr = sx.real_array(name, (*self.n, nv))
        valid = sx.bool_array(name + "ok", self.n)
        f = self.df.Field(self.mesh, nvdim=nv, value=arr, vdims=vd, valid=valid, vdim_mapping=mapping)
        snap = dict(array=np.array(arr, dtype=object, copy=True), valid=np.array(valid, dtype=object, copy=True), vdims=None if f.vdims is None else list(f.vdims),
                    mapping=dict(f.vdim_mapping), mesh=f.mesh, arr_obj=f.array, valid_obj=f.valid,
                    pmin=list(f.mesh.region.pmin), pmax=list(f.mesh.region.pmax), nn=tuple(int(x) for x in f.mesh.n))
        self.fields[name] = (f, arr, valid, snap)
        return self.fields[name]


def leaf(env, kind):
    """returns (library object, oracle: idx -> list of scalars, validity oracle: idx -> condition or None, is_field)"""
    sx, nv = env.sx, env.nv
    if kind in ("f", "g"):
        f, arr, valid, _ = env.field(kind, nv, vd=CUSTOM[nv] if env.labels == "custom" and kind == "f" else None)
        return f, (lambda idx: [arr[idx + (c,)] for c in range(nv)]), (lambda idx: valid[idx]), True
    if kind == "s":
        f, arr, valid, _ = env.field("s", 1)
        return f, (lambda idx: [arr[idx + (0,)]]), (lambda idx: valid[idx]), True
    if kind == "num":
        a = env.__dict__.setdefault("_num", None) or sx.real("a")
        env._num = a
        return a, (lambda idx: [a]), None, False
    if kind == "cnum":
        return 2.5, (lambda idx: [2.5]), None, False
    if kind == "vec":
        v = env.__dict__.setdefault("_vec", None) or sx.reals("c", nv)
        env._vec = v
        lib_v = tuple(v) if nv % 2 else list(v)
        return lib_v, (lambda idx: list(v)), None, False
    if kind == "arr":
        A = env.__dict__.setdefault("_arr", None)
        if A is None:
            A = sx.real_array("A", (*env.n, nv))
            env._arr = A
        return A, (lambda idx: [A[idx + (c,)] for c in range(nv)]), None, False
    raise ValueError(kind)


def _bc(x, y):
    if len(x) == len(y):
        return x, y
    if len(x) == 1:
        return x * len(y), y
    if len(y) == 1:
        return x, y * len(x)
    raise ValueError("incompatible")


def _cross(a, b):
    return [a[1] * b[2] - a[2] * b[1], a[2] * b[0] - a[0] * b[2], a[0] * b[1] - a[1] * b[0]]


def build(env, tree):
    """tree -> (lib thunk, oracle(idx) -> list, valid oracle(idx) -> cond/None, is_field)

    The oracle is built first (and collects the non-zero requirements), the library value is computed by calling thunk()."""
    sx = env.sx
    if isinstance(tree, str):
        obj, orc, vo, isf = leaf(env, tree)
        return (lambda: obj), orc, vo, isf
    op = tree[0]
    if op in ("+", "-", "*", "/"):
        lt, lo, lv, lf = build(env, tree[1])
        rt, ro, rv, rf = build(env, tree[2])

        def orc(idx):
            x, y = _bc(lo(idx), ro(idx))
            if op == "+":
                return [p + q for p, q in zip(x, y)]
            if op == "-":
                return [p - q for p, q in zip(x, y)]
            if op == "*":
                return [p * q for p, q in zip(x, y)]
            return [p / q for p, q in zip(x, y)]

        if op == "/":
            for idx in env.cells:
                env.nonzero.extend(ro(idx))

        def thunk():
            a, b = lt(), rt()
            if op == "+":
                return a + b
            if op == "-":
                return a - b
            if op == "*":
                return a * b
            return a / b

        if tree[1] == "arr":
            return thunk, orc, "skip", True  # ndarray (op) Field is dispatched through the ufunc protocol (validity: see C08)
        return thunk, orc, _and_valid(sx, lv, rv), True
    if op in ("pow2", "pow3"):
        lt, lo, lv, lf = build(env, tree[1])
        k = 2 if op == "pow2" else 3

        def orc(idx):
            out = []
            for p in lo(idx):
                r = p
                for _ in range(k - 1):
                    r = r * p
                out.append(r)
            return out

        return (lambda: lt() ** k), orc, lv, True
    if op in ("neg", "pos", "abs"):
        lt, lo, lv, lf = build(env, tree[1])

        def orc(idx):
            x = lo(idx)
            if op == "neg":
                return [-p for p in x]
            if op == "pos":
                return list(x)
            return [sx.ite(p >= 0, p, -p) for p in x]

        def thunk():
            a = lt()
            return -a if op == "neg" else (+a if op == "pos" else abs(a))

        return thunk, orc, lv, True
    if op == "dot":
        lt, lo, lv, lf = build(env, tree[1])
        rt, ro, rv, rf = build(env, tree[2])

        def orc(idx):
            x, y = lo(idx), ro(idx)
            acc = 0.0
            for p, q in zip(x, y):
                acc = acc + p * q
            return [acc]

        how = tree[3] if len(tree) > 3 else "method"

        def thunk():
            a, b = lt(), rt()
            if how == "matmul":
                return a @ b
            return a.dot(b)

        return thunk, orc, _and_valid(sx, lv, rv), True
    if op == "cross":
        lt, lo, lv, lf = build(env, tree[1])
        rt, ro, rv, rf = build(env, tree[2])
        how = tree[3] if len(tree) > 3 else "method"

        def thunk():
            a, b = lt(), rt()
            if how == "and":
                return a & b
            return a.cross(b)

        return thunk, (lambda idx: _cross(lo(idx), ro(idx))), _and_valid(sx, lv, rv), True
    if op == "stack":
        lt, lo, lv, lf = build(env, tree[1])
        rt, ro, rv, rf = build(env, tree[2])
        return (lambda: lt() << rt()), (lambda idx: list(lo(idx)) + list(ro(idx))), _and_valid(sx, lv, rv), True
    if op == "ufunc":
        name = tree[1]
        subs = [build(env, t) for t in tree[2:]]

        def orc(idx):
            vals = [s[1](idx) for s in subs]
            if name == "add":
                x, y = _bc(vals[0], vals[1])
                return [p + q for p, q in zip(x, y)]
            if name == "multiply":
                x, y = _bc(vals[0], vals[1])
                return [p * q for p, q in zip(x, y)]
            if name == "negative":
                return [-p for p in vals[0]]
            if name == "sin":
                return [sx.uf("sin", p) if sx.sym else __import__("math").sin(p) for p in vals[0]]
            raise ValueError(name)

        def thunk():
            import numpy as real_np

            return getattr(real_np, name)(*[s[0]() for s in subs])

        # ufunc results carry no validity statement in the property beyond the data: not checked (None)
        return thunk, orc, "skip", True
    raise ValueError(op)


def _and_valid(sx, lv, rv):
    if lv == "skip" or rv == "skip":
        return "skip"
    if lv is None:
        return rv
    if rv is None:
        return lv
    return lambda idx: sx.And(sx.truth(lv(idx)), sx.truth(rv(idx)))


def _check_operands_untouched(sx, env):
    for name, (f, arr, valid, snap) in env.fields.items():
        sx.check(f"operand-{name}-array-object", f.array is snap["arr_obj"])
        sx.check(f"operand-{name}-array", sx.eq(f.array, snap["array"]))
        sx.check(f"operand-{name}-valid", sx.And(*[sx.eq(sx.truth(x), sx.truth(y)) for x, y in zip(np.asarray(f.valid, dtype=object).flat, snap["valid"].flat)]))
        sx.check(f"operand-{name}-labels", (None if f.vdims is None else list(f.vdims)) == snap["vdims"] and dict(f.vdim_mapping) == snap["mapping"])
        sx.check(f"operand-{name}-mesh", f.mesh is snap["mesh"] and tuple(int(x) for x in f.mesh.n) == snap["nn"])
        sx.check(f"operand-{name}-mesh-geometry", sx.And(sx.eq(list(f.mesh.region.pmin), snap["pmin"]), sx.eq(list(f.mesh.region.pmax), snap["pmax"])))


def h_tree(sx, cfg):
    df = lib.load()
    n = tuple(cfg["n"])
    nv = cfg["nvdim"]
    mesh, pmin, e = sym_mesh(sx, n, flip=False)
    env = Env(sx, df, mesh, n, nv, cfg.get("labels", "default"))
    tree = _totuple(cfg["tree"])
    thunk, orc, vo, isf = build(env, tree)
    try:
        expected = {idx: orc(idx) for idx in env.cells}
    except ValueError as ex:
        if str(ex) != "incompatible":
            raise
        # component counts that do not broadcast: the library has to refuse the expression
        try:
            thunk()
        except (ValueError, TypeError):
            sx.check("incompatible-component-counts-refused", True)
        else:
            sx.check("incompatible-component-counts-refused", False)
        _check_operands_untouched(sx, env)
        return
    for t in env.nonzero:
        sx.assume(sx.ne(t, 0))
    try:
        res = thunk()
    except Exception as ex:  # noqa: BLE001
        sx.check("expression-accepted", False, exc=f"{type(ex).__name__}: {ex}")
        return
    sx.check("result-is-field", isinstance(res, df.Field))
    if not isinstance(res, df.Field):
        return
    width = len(expected[env.cells[0]])
    sx.check("result-mesh", res.mesh == mesh and tuple(int(x) for x in res.mesh.n) == n)
    sx.check("result-mesh-geometry", sx.And(sx.eq(list(res.mesh.region.pmin), pmin), sx.eq(list(res.mesh.region.pmax), [pmin[a] + e[a] for a in range(len(n))])))
    sx.check("result-shape", tuple(np.shape(res.array)) == (*n, width) and res.nvdim == width)
    if tuple(np.shape(res.array)) == (*n, width):
        for idx in env.cells:
            for c in range(width):
                sx.check(f"value{idx}[{c}]", sx.eq(res.array[idx + (c,)], expected[idx][c]))
    if vo != "skip":
        sx.check("valid-shape", tuple(np.shape(res.valid)) == n)
        for idx in env.cells:
            want = True if vo is None else sx.truth(vo(idx))
            sx.check(f"valid{idx}", sx.eq(sx.truth(res.valid[idx]), want))
    _check_operands_untouched(sx, env)


def _totuple(t):
    if isinstance(t, (list, tuple)):
        return tuple(_totuple(x) for x in t)
    return t


def h_angle(sx, cfg):
    """angle(f, g) = arccos(f.g / (|f||g|)) cell by cell (arccos uninterpreted; congruence on its argument)"""
    df = lib.load()
    n = tuple(cfg["n"])
    nv = cfg["nvdim"]
    mesh, pmin, e = sym_mesh(sx, n, flip=False)
    env = Env(sx, df, mesh, n, nv, "default")
    f, fa, fv, _ = env.field("f", nv)
    other = cfg["other"]
    if other == "field":
        g, ga, gv, _ = env.field("g", nv)
        gval = lambda idx: [ga[idx + (c,)] for c in range(nv)]  # noqa: E731
    else:
        c = sx.reals("c", nv)
        g = tuple(c) if nv > 1 else c[0]
        gval = lambda idx: list(c)  # noqa: E731
    for idx in env.cells:
        sx.assume(sx.Or(*[sx.ne(fa[idx + (k,)], 0) for k in range(nv)]))
        sx.assume(sx.Or(*[sx.ne(x, 0) for x in gval(idx)]))
    res = f.angle(g)
    sx.check("result", isinstance(res, df.Field) and res.nvdim == 1 and res.mesh == mesh and res.unit == "rad")
    for idx in env.cells:
        x, y = [fa[idx + (k,)] for k in range(nv)], gval(idx)
        dot = sum((p * q for p, q in zip(x, y)), 0.0)
        n1 = sum((p * p for p in x), 0.0)
        n2 = sum((q * q for q in y), 0.0)
        if sx.sym:
            # the library value is arccos(t) with t = dot/(sqrt(n1) sqrt(n2)); state it through t: t*|f||g| = dot, sign and square
            got = res.array[idx + (0,)]
            r1, r2 = sx.sqrt(n1), sx.sqrt(n2)
            want = sx.uf("arccos", dot / (r1 * r2))
            sx.check(f"angle{idx}", sx.eq(got, want))
            sx.check(f"angle-range{idx}", sx.And(got >= 0, got <= 3.141592653589794))
        else:
            import math

            want = math.acos(max(-1.0, min(1.0, dot / math.sqrt(n1 * n2))))
            sx.check(f"angle{idx}", sx.eq(res.array[idx + (0,)], want, scale=1.0))
        if other == "field":
            sx.check(f"valid{idx}", sx.eq(sx.truth(res.valid[idx]), sx.And(sx.truth(fv[idx]), sx.truth(gv[idx]))))
        else:
            sx.check(f"valid{idx}", sx.eq(sx.truth(res.valid[idx]), sx.truth(fv[idx])))
    _check_operands_untouched(sx, env)


def h_angle_typed(sx, cfg):
    """integer-typed field and a fractional constant vector (concrete; the cast happens inside numpy): the constant is used as given"""
    df = lib.load()
    with sx.native():
        import math

        n = tuple(cfg["n"])
        nv = cfg["nvdim"]
        mesh = df.Mesh(p1=(0.0,) * len(n) if len(n) > 1 else 0.0, p2=tuple(float(k) for k in n) if len(n) > 1 else float(n[0]), n=n if len(n) > 1 else n[0])
        base = np.array([[1, 2, 2, -3], [3, -1, 2, 1], [-2, 2, 1, 4], [1, 1, -4, 2]])[:, :nv]
        vals = np.empty((*n, nv), dtype=np.int64)
        for t, idx in enumerate(np.ndindex(*n)):
            vals[idx] = base[t % 4]
        f = df.Field(mesh, nvdim=nv, value=vals, dtype=np.int64)
        const = [0.5, 0.25, 1.5, -0.75][:nv]
        for tag, operand in (("tuple", tuple(const) if nv > 1 else const[0]), ("array", np.array(const) if nv > 1 else const[0]), ("field", df.Field(mesh, nvdim=nv, value=tuple(const) if nv > 1 else const[0]))):
            res = f.angle(operand)
            ok = True
            for idx in np.ndindex(*n):
                x = vals[idx].astype(float)
                want = math.acos(max(-1.0, min(1.0, float(np.dot(x, const)) / math.sqrt(float(np.dot(x, x)) * float(np.dot(const, const))))))
                ok = ok and abs(float(res.array[idx + (0,)]) - want) < 1e-12
            sx.check(f"int-field-angle-with-fractional-{tag}", ok)
        sx.check("operand-untouched", f.array.dtype == np.int64 and bool(np.array_equal(f.array, vals)))


def h_commute(sx, cfg):
    """a*b == b*a and a+b == b+a as fields, including component labels and their mapping to axes"""
    df = lib.load()
    n = tuple(cfg["n"])
    nd = len(n)
    nv = cfg["nvdim"]
    dims = DIMSETS["default"][nd]
    mesh, pmin, e = sym_mesh(sx, n, flip=False)
    env = Env(sx, df, mesh, n, nv, "custom")
    vd = CUSTOM[nv] if cfg.get("labels") == "custom" else None
    mapping = None
    if cfg.get("mapping") == "permuted" and nv == nd and nv > 1:
        names = vd or (["x", "y", "z"][:nv] if nv <= 3 else [f"v{i}" for i in range(nv)])
        mapping = dict(zip(names, list(dims[1:]) + [dims[0]]))
    a, _, _, _ = env.field("f", nv, vd=vd, mapping=mapping)
    kind = cfg["other"]
    if kind == "scalar_field":
        b, _, _, _ = env.field("s", 1)
    elif kind == "field":
        b, _, _, _ = env.field("g", nv, vd=vd, mapping=mapping)
    elif kind == "num":
        b = sx.real("a")
    elif kind == "vec":
        b = tuple(sx.reals("c", nv))
    else:
        b = sx.real_array("A", (*n, nv))
    for opname, fn in (("mul", lambda x, y: x * y), ("add", lambda x, y: x + y)):
        try:
            r1, r2 = fn(a, b), fn(b, a)
        except Exception as ex:  # noqa: BLE001
            sx.check(f"{opname}-accepted-both-orders", False, exc=f"{type(ex).__name__}: {ex}")
            continue
        ok = isinstance(r1, df.Field) and isinstance(r2, df.Field)
        sx.check(f"{opname}-both-fields", ok)
        if ok:
            for name, cond in fields_same(sx, r1, r2, f"{opname}-commutes"):
                if kind == "arr" and name.endswith("-valid"):
                    continue  # ndarray-first goes through the ufunc protocol; validity of ufunc results is C08's subject
                sx.check(name, cond)
    _check_operands_untouched(sx, env)


def h_stack(sx, cfg):
    """f.c1 << f.c2 << ... reproduces f including labels and mapping"""
    df = lib.load()
    n = tuple(cfg["n"])
    nd = len(n)
    nv = cfg["nvdim"]
    dims = DIMSETS["default"][nd]
    mesh, pmin, e = sym_mesh(sx, n, flip=False)
    env = Env(sx, df, mesh, n, nv, "custom")
    vd = CUSTOM[nv] if cfg.get("labels") == "custom" else None
    names = vd or (["x", "y", "z"][:nv] if nv <= 3 else [f"v{i}" for i in range(nv)])
    mapping = None
    if cfg.get("mapping") == "permuted" and nv == nd:
        mapping = dict(zip(names, list(dims[1:]) + [dims[0]]))
    elif cfg.get("mapping") == "none":
        mapping = {}
    f, arr, valid, _ = env.field("f", nv, vd=vd, mapping=mapping)
    comps = [getattr(f, nm) for nm in names]
    res = comps[0]
    for c in comps[1:]:
        res = res << c
    for name, cond in fields_same(sx, res, f, "restacked"):
        if (vd is not None or cfg.get("mapping") != "default") and (name.endswith("-vdims") or name.endswith("-mapping")):
            # component fields carry no label (scalar fields have none unless set by hand) and hence no mapping entry, so
            # the restacked field gets default labels and the default mapping: values/validity/mesh/nvdim are what
            # "reproduces it" promises (Field.__eq__); labels and mapping are checked only where the defaults coincide
            continue
        sx.check(name, cond)
    # stacking numbers / vectors
    a = sx.real("a")
    r2 = comps[0] << a
    sx.check("stack-number-shape", r2.nvdim == 2 and tuple(np.shape(r2.array)) == (*n, 2))
    for idx in env.cells:
        sx.check(f"stack-number{idx}", sx.And(sx.eq(r2.array[idx + (0,)], arr[idx + (0,)]), sx.eq(r2.array[idx + (1,)], a)))
    r3 = a << comps[0]
    for idx in env.cells:
        sx.check(f"rstack-number{idx}", sx.And(sx.eq(r3.array[idx + (1,)], arr[idx + (0,)]), sx.eq(r3.array[idx + (0,)], a)))
    _check_operands_untouched(sx, env)
    # history: values and validity are edited in place after the components have been read once; stacking the components
    # of the field as it is now reproduces it as it is now
    w = sx.real("w_new")
    first = (0,) * nd
    f.array[first + (nv - 1,)] = w
    now = not sx.decide(sx.truth(valid[first]))
    f.valid[first] = now
    comps2 = [getattr(f, nm) for nm in names]
    res2 = comps2[0]
    for c in comps2[1:]:
        res2 = res2 << c
    for idx in env.cells:
        for k in range(nv):
            want = w if (idx == first and k == nv - 1) else arr[idx + (k,)]
            sx.check(f"restacked-after-in-place-edit{idx}[{k}]", sx.eq(res2.array[idx + (k,)], want))
        sx.check(f"restacked-valid-after-in-place-edit{idx}", sx.eq(sx.truth(res2.valid[idx]), now if idx == first else sx.truth(valid[idx])))


def h_complex(sx, cfg):
    """real / imag / conjugate / abs of complex fields, cell by cell"""
    df = lib.load()
    n = tuple(cfg["n"])
    nv = cfg["nvdim"]
    mesh, pmin, e = sym_mesh(sx, n, flip=False)
    re = sx.real_array("re", (*n, nv))
    im = sx.real_array("im", (*n, nv))
    valid = sx.bool_array("ok", n)
    z = symarray([x + y * 1j for x, y in zip(re.flat, im.flat)]).reshape(re.shape) if sx.sym else re + 1j * im
    f = df.Field(mesh, nvdim=nv, value=z, dtype=complex if not sx.sym else None, valid=valid, unit="T")
    for name, got, want in (
        ("real", f.real, lambda i: re[i]),
        ("imag", f.imag, lambda i: im[i]),
    ):
        sx.check(f"{name}-meta", got.mesh == mesh and got.nvdim == nv and got.vdims == f.vdims and got.unit == "T")
        for idx in np.ndindex(*n, nv):
            sx.check(f"{name}{idx}", sx.eq(got.array[idx], want(idx)))
        for idx in np.ndindex(*n):
            sx.check(f"{name}-valid{idx}", sx.eq(sx.truth(got.valid[idx]), sx.truth(valid[idx])))
    cj = f.conjugate
    for idx in np.ndindex(*n, nv):
        v = cj.array[idx]
        sx.check(f"conjugate{idx}", sx.And(sx.eq(v.real, re[idx]), sx.eq(v.imag, -im[idx])))
    ab = f.abs
    for idx in np.ndindex(*n, nv):
        v = ab.array[idx]
        sx.check(f"abs{idx}", sx.And(v >= 0, sx.eq(v * v, re[idx] * re[idx] + im[idx] * im[idx])))
    # products of complex fields
    g = f * f
    for idx in np.ndindex(*n, nv):
        v = g.array[idx]
        sx.check(f"square{idx}", sx.And(sx.eq(v.real, re[idx] * re[idx] - im[idx] * im[idx]), sx.eq(v.imag, 2 * re[idx] * im[idx])))
    # dot product of complex fields: plain sum of products (no conjugation), both orders, also with a complex constant vector
    re2 = sx.real_array("gre", (*n, nv))
    im2 = sx.real_array("gim", (*n, nv))
    z2 = symarray([x + y * 1j for x, y in zip(re2.flat, im2.flat)]).reshape(re2.shape) if sx.sym else re2 + 1j * im2
    g2 = df.Field(mesh, nvdim=nv, value=z2, dtype=complex if not sx.sym else None)
    cre, cim = sx.reals("cre", nv), sx.reals("cim", nv)
    cvec = [x + y * 1j for x, y in zip(cre, cim)]
    for tag, res, bre, bim in (("dot-fg", f.dot(g2), lambda i, l: re2[i + (l,)], lambda i, l: im2[i + (l,)]),
                               ("matmul-gf", g2 @ f, lambda i, l: re2[i + (l,)], lambda i, l: im2[i + (l,)]),
                               ("dot-vector", f.dot(cvec), lambda i, l: cre[l], lambda i, l: cim[l])):
        sx.check(f"{tag}-meta", res.nvdim == 1 and res.mesh == mesh)
        for idx in np.ndindex(*n):
            er, ei = 0.0, 0.0
            for l in range(nv):
                a_r, a_i, b_r, b_i = re[idx + (l,)], im[idx + (l,)], bre(idx, l), bim(idx, l)
                er = er + a_r * b_r - a_i * b_i
                ei = ei + a_r * b_i + a_i * b_r
            v = res.array[idx + (0,)]
            sx.check(f"{tag}{idx}", sx.And(sx.eq(v.real, er), sx.eq(v.imag, ei)))
    w = (f - g2) / (2.0 + 1.0j)
    for idx in np.ndindex(*n, nv):
        dr, di = re[idx] - re2[idx], im[idx] - im2[idx]
        v = w.array[idx]
        sx.check(f"sub-div-complex{idx}", sx.And(sx.eq(v.real, (2 * dr + di) / 5), sx.eq(v.imag, (2 * di - dr) / 5)))
    sx.check("operand-array", sx.And(*[sx.And(sx.eq(f.array[idx].real, re[idx]), sx.eq(f.array[idx].imag, im[idx])) for idx in np.ndindex(*n, nv)]))


def h_refuse(sx, cfg):
    """different meshes / incompatible component counts / unsupported operand types are refused"""
    df = lib.load()
    n = tuple(cfg["n"])
    nd = len(n)
    mesh, pmin, e = sym_mesh(sx, n, flip=False)
    nv = cfg["nvdim"]
    fa = sx.real_array("f", (*n, nv))
    f = df.Field(mesh, nvdim=nv, value=fa)
    kind = cfg["kind"]
    ops = [("add", lambda x, y: x + y), ("sub", lambda x, y: x - y), ("mul", lambda x, y: x * y), ("div", lambda x, y: x / y),
           ("pow", lambda x, y: x**y), ("dot", lambda x, y: x.dot(y)), ("stack", lambda x, y: x << y), ("angle", lambda x, y: x.angle(y))]
    if nv == 3:
        ops.append(("cross", lambda x, y: x.cross(y)))
    if kind == "shifted":
        d = sx.real("d")
        ax = cfg.get("axis", 0)
        mine = e[0]
        for a_ in range(1, nd):
            mine = sx.min(mine, e[a_])
        band = 2e-12 * (mine + abs(pmin[ax]) + abs(pmin[ax] + e[ax]) + abs(d))  # beyond Region.allclose's tolerance
        sx.assume(sx.Or(d > band, d < -band))
        p1 = list(pmin)
        p1[ax] = p1[ax] + d
        p2 = [pmin[a] + e[a] for a in range(nd)]
        p2[ax] = p2[ax] + d
        other_mesh = df.Mesh(p1=p1, p2=p2, n=n)
        g = df.Field(other_mesh, nvdim=nv, value=fa)
        expect = (ValueError,)
        if nv > 1:
            # a scalar field on the other mesh as well (scalar fields broadcast over components -- but only on one mesh), both orders
            gs = df.Field(other_mesh, nvdim=1, value=fa[..., :1])
            for name, fn in (("add", lambda x, y: x + y), ("sub", lambda x, y: x - y), ("mul", lambda x, y: x * y), ("div", lambda x, y: x / y)):
                for tag, a_, b_ in (("vector-scalar", f, gs), ("scalar-vector", gs, f)):
                    try:
                        fn(a_, b_)
                    except ValueError:
                        sx.check(f"shifted-{tag}-{name}-refused", True)
                    except Exception as ex:  # noqa: BLE001
                        sx.check(f"shifted-{tag}-{name}-refused", False, exc=f"{type(ex).__name__}: {ex}")
                    else:
                        sx.check(f"shifted-{tag}-{name}-refused", False, exc="accepted")
    elif kind == "other_n":
        n2 = list(n)
        n2[0] += 1
        other_mesh = df.Mesh(region=mesh.region, n=tuple(n2))
        g = df.Field(other_mesh, nvdim=nv, value=sx.real_array("g", (*n2, nv)))
        expect = (ValueError,)
    elif kind == "nvdim":
        g = df.Field(mesh, nvdim=nv + 1, value=sx.real_array("g", (*n, nv + 1)))
        expect = (ValueError,)
        ops = [o for o in ops if o[0] not in ("stack",)]
        if nv == 1:
            ops = [o for o in ops if o[0] in ("dot", "angle")]  # scalar fields broadcast in + - * /
    elif kind == "type":
        g = "text"
        expect = (TypeError,)
    elif kind == "dict":
        g = {"a": 1}
        expect = (TypeError,)
    for name, fn in ops:
        try:
            fn(f, g)
        except expect:
            sx.check(f"{kind}-{name}-refused", True)
        except Exception as ex:  # noqa: BLE001
            sx.check(f"{kind}-{name}-refused", False, exc=f"{type(ex).__name__}: {ex}")
        else:
            sx.check(f"{kind}-{name}-refused", False, exc="accepted")
    sx.check("operand-untouched", sx.eq(f.array, fa))


# --------------------------------------------------------------------------- task lists
def _depth1(nv):
    trees = []
    fleaves = ["f", "s"]
    others = ["g", "s", "num", "cnum", "vec", "arr"]
    for op in ("+", "-", "*", "/"):
        for a in fleaves:
            for b in others:
                if a == "s" and b == "s":
                    continue
                trees.append((op, a, b))
                if b not in ("g", "s"):
                    trees.append((op, b, a))
        trees.append((op, "s", "f"))
    for op in ("pow2", "pow3", "neg", "pos", "abs"):
        trees += [(op, "f"), (op, "s")]
    trees += [("dot", "f", "g"), ("dot", "f", "vec"), ("dot", "f", "g", "matmul"), ("dot", "f", "arr")]
    if nv == 3:
        trees += [("cross", "f", "g"), ("cross", "f", "vec"), ("cross", "f", "g", "and")]
    trees += [("stack", "f", "g"), ("stack", "s", "f"), ("stack", "f", "s")]
    trees += [("ufunc", "add", "f", "g"), ("ufunc", "multiply", "f", "num"), ("ufunc", "sin", "f"), ("ufunc", "negative", "s"), ("ufunc", "multiply", "s", "f")]
    return trees


def _depth2(nv):
    inner = [("+", "f", "g"), ("*", "s", "f"), ("-", "num", "f"), ("neg", "f"), ("abs", "f"), ("/", "f", "vec"), ("*", "f", "arr"), ("pow2", "f")]
    if nv == 3:
        inner.append(("cross", "f", "g"))
    out = []
    for i in inner:
        for op in ("+", "-", "*", "/"):
            for o in ("g", "s", "num", "vec"):
                out.append((op, i, o))
                out.append((op, o, i))
        out += [("neg", i), ("abs", i), ("pow2", i), ("dot", i, "g"), ("dot", "g", i), ("stack", i, "s")]
        if nv == 3:
            out += [("cross", i, "g"), ("cross", "g", i)]
    out += [("dot", ("dot", "f", "g"), "s"), ("*", ("dot", "f", "g"), "f"), ("*", "f", ("dot", "f", "g")), ("stack", ("dot", "f", "g"), ("dot", "g", "g"))]
    return out


def _depth3(nv):
    d2 = _depth2(nv)
    out = []
    for i, t in enumerate(d2):
        op = ("+", "-", "*")[i % 3]
        other = ("g", "s", "num", "vec")[i % 4]
        out.append((op, t, other) if i % 2 else (op, other, t))
    return out


def tasks(tier):
    q = tier == "quick"
    t = []
    meshes = [((2,), 1), ((2, 1), 2), ((1, 2, 1), 3)] if q else [((2,), 1), ((2,), 3), ((2, 2), 2), ((2, 1, 2), 3), ((1, 2, 1, 1), 4), ((2, 1), 4)]
    for mi, (n, nv) in enumerate(meshes):
        d1 = _depth1(nv)
        for ti, tree in enumerate(d1):
            t.append(dict(harness="h_tree", cfg=dict(n=list(n), nvdim=nv, tree=tree, labels="custom" if (ti + mi) % 2 else "default")))
        d2 = _depth2(nv)
        stride = 5 if q else 1
        for ti, tree in enumerate(d2[mi % stride:: stride]):
            t.append(dict(harness="h_tree", cfg=dict(n=list(n), nvdim=nv, tree=tree, labels="custom" if ti % 2 else "default")))
        if not q:
            d3 = _depth3(nv)
            for ti, tree in enumerate(d3[mi % 4:: 4]):
                t.append(dict(harness="h_tree", cfg=dict(n=list(n), nvdim=nv, tree=tree)))
    for n, nv, other in ([((2,), 2, "field"), ((1, 1), 3, "vec"), ((2,), 1, "vec")] if q else
                         [((2,), 2, "field"), ((1, 1), 3, "vec"), ((2,), 1, "vec"), ((2, 1), 3, "field"), ((1,), 4, "field")]):
        t.append(dict(harness="h_angle", cfg=dict(n=list(n), nvdim=nv, other=other), limits=dict(timeout_ms=60000)))
    for n, nv in (((2, 2), 3), ((3,), 2), ((2, 1, 2), 1)):
        t.append(dict(harness="h_angle_typed", cfg=dict(n=list(n), nvdim=nv)))
    for n, nv in ([((2,), 1), ((2, 1), 2), ((1, 2, 1), 3)] if q else [((2,), 1), ((2, 2), 2), ((2, 1), 3), ((1, 2, 1), 3), ((2, 1, 1, 1), 4)]):
        for other in ("scalar_field", "field", "num", "vec", "arr"):
            for labels in ("default", "custom"):
                for mapping in ("default", "permuted"):
                    if mapping == "permuted" and nv != len(n):
                        continue
                    t.append(dict(harness="h_commute", cfg=dict(n=list(n), nvdim=nv, other=other, labels=labels, mapping=mapping)))
    for n, nv in ([((2, 1), 2), ((1, 2, 1), 3), ((2,), 3)] if q else [((2, 1), 2), ((2, 2), 2), ((1, 2, 1), 3), ((2,), 3), ((2, 1), 4), ((1, 1, 2, 1), 4)]):
        for labels in ("default", "custom"):
            for mapping in ("default", "permuted", "none"):
                if mapping == "permuted" and nv != len(n):
                    continue
                t.append(dict(harness="h_stack", cfg=dict(n=list(n), nvdim=nv, labels=labels, mapping=mapping)))
    for n, nv in ([((2,), 1), ((1, 2), 2)] if q else [((2,), 1), ((1, 2), 2), ((2, 1, 1), 3)]):
        t.append(dict(harness="h_complex", cfg=dict(n=list(n), nvdim=nv)))
    for n, nv in ([((2,), 1), ((2, 1), 3)] if q else [((2,), 1), ((2, 1), 3), ((1, 2, 1), 2)]):
        for kind in ("shifted", "other_n", "nvdim", "type", "dict"):
            t.append(dict(harness="h_refuse", cfg=dict(n=list(n), nvdim=nv, kind=kind, axis=len(n) - 1)))
    return t
