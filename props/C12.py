"""C12 -- quarter-turn rotations move values, vectors, validity and geometry together (DESIGN 2/C12)."""
from __future__ import annotations

import itertools

import numpy as np

from symx import lib
from symx.sarray import symarray

from .common import DIMSETS, region_inputs
from .geom import (check_all, fields_same, meshes_same, qturn, region_eq, region_inv, regions_same, rot_box, rot_index,
                   rot_point, sub_boxes, swap_odd)

META = dict(
    bounds=dict(
        quick=dict(ndim="2..3", n="anisotropic from {1,2,3}", k="-5..6 (spread over configurations)", axis_pairs="every ordered pair",
                   reference="default and symbolic explicit", nvdim="1..3", mappings="identity, permutations, insertion order != label order, "
                   "component mapped to a non-axis", subregions="none / two", forms="copy and in place"),
        thorough=dict(ndim="2..4", k="-9..10", mappings="all permutations", n="anisotropic from {1,2,3,4}"),
    ),
    stubs=["np.cos/np.sin of a concrete multiple of pi/2 return the exact 0, +-1 (DESIGN 1.1)"],
    assumptions=["REAL theory with exact quarter turns: the 6e-17 residue of cos(pi/2) in binary64 is rounding, outside the claim"],
    outside=["ndim > 4", "rounding of cos/sin", "k beyond the bound (k enters only through k mod 4 and k mod 2 in the code)"],
)

UNITS = {2: ("m", "s"), 3: ("m", "s", "K"), 4: ("m", "s", "K", "A")}


def _ref(sx, cfg, nd, pmin, e):
    if cfg["ref"] == "default":
        return None, [pmin[i] + e[i] / 2 for i in range(nd)]
    R = sx.reals("R", nd)
    return (list(R) if cfg["ref"] == "list" else tuple(R)), R


def h_region(sx, cfg):
    df = lib.load()
    nd, a, b = cfg["ndim"], cfg["a"], cfg["b"]
    dims = DIMSETS[cfg.get("dims", "default")][nd]
    units = UNITS[nd]
    pmin, e, p1, p2 = region_inputs(sx, nd)
    Rarg, R = _ref(sx, cfg, nd, pmin, e)
    pmax = [pmin[i] + e[i] for i in range(nd)]
    for k in cfg["ks"]:
        r = df.Region(p1=p1, p2=p2, dims=dims, units=units)
        res = r.rotate90(dims[a], dims[b], k=k, reference_point=Rarg, inplace=cfg["inplace"])
        lo, hi = rot_box(sx, k, a, b, R, pmin, pmax)
        check_all(sx, [(f"k={k}:{n_}", c) for n_, c in region_eq(sx, res, lo, hi, dims, swap_odd(k, a, b, units))])
        check_all(sx, [(f"k={k}:{n_}", c) for n_, c in region_inv(sx, res)])
        if cfg["inplace"]:
            sx.check(f"k={k}:inplace-returns-self", res is r)
        else:
            sx.check(f"k={k}:copy-is-new-object", res is not r)
            check_all(sx, [(f"k={k}:original-{n_}", c) for n_, c in region_eq(sx, r, pmin, pmax, dims, units)])
        # edges swap for odd k
        ee = swap_odd(k, a, b, e)
        sx.check(f"k={k}:edges", sx.eq(list(res.edges), ee))


def _mesh(sx, df, cfg):
    n = tuple(cfg["n"])
    nd = len(n)
    dims = DIMSETS[cfg.get("dims", "default")][nd]
    units = UNITS[nd]
    pmin, e, p1, p2 = region_inputs(sx, nd)
    c = [e[i] / n[i] for i in range(nd)]
    boxes = sub_boxes(sx, cfg.get("subregions", "none"), pmin, c, n)

    def build():
        subs = {name: df.Region(p1=lo, p2=hi) for name, (lo, hi, _, _) in boxes.items()}
        return df.Mesh(region=df.Region(p1=p1, p2=p2, dims=dims, units=units), n=n, bc=cfg.get("bc", ""), subregions=subs)

    return build, n, nd, dims, units, pmin, e, c, boxes


def _check_mesh(sx, tag, res, k, a, b, R, n, dims, units, pmin, e, boxes, bc=""):
    nd = len(n)
    pmax = [pmin[i] + e[i] for i in range(nd)]
    lo, hi = rot_box(sx, k, a, b, R, pmin, pmax)
    check_all(sx, [(f"{tag}{n_}", c) for n_, c in region_eq(sx, res.region, lo, hi, dims, swap_odd(k, a, b, units))])
    sx.check(f"{tag}n", [int(x) for x in res.n] == swap_odd(k, a, b, list(n)))
    sx.check(f"{tag}bc", res.bc == bc)
    sx.check(f"{tag}subregion-names", list(res.subregions) == list(boxes))
    for name, (slo, shi, _, _) in boxes.items():
        if name in res.subregions:
            l2, h2 = rot_box(sx, k, a, b, R, slo, shi)
            check_all(sx, [(f"{tag}sub-{name}-{n_}", c) for n_, c in
                           region_eq(sx, res.subregions[name], l2, h2, dims, swap_odd(k, a, b, units), tag="")])
    cell = swap_odd(k, a, b, [e[i] / n[i] for i in range(nd)])
    sx.check(f"{tag}cell", sx.eq(list(res.cell), cell))


def h_mesh(sx, cfg):
    df = lib.load()
    build, n, nd, dims, units, pmin, e, c, boxes = _mesh(sx, df, cfg)
    a, b = cfg["a"], cfg["b"]
    Rarg, R = _ref(sx, cfg, nd, pmin, e)
    for k in cfg["ks"]:
        m = build()
        res = m.rotate90(dims[a], dims[b], k=k, reference_point=Rarg, inplace=cfg["inplace"])
        _check_mesh(sx, f"k={k}:", res, k, a, b, R, n, dims, units, pmin, e, boxes, cfg.get("bc", ""))
        if cfg["inplace"]:
            sx.check(f"k={k}:inplace-returns-self", res is m)
        else:
            _check_mesh(sx, f"k={k}:original-", m, 0, a, b, R, n, dims, units, pmin, e, boxes, cfg.get("bc", ""))
        # every cell centre is carried to a cell centre of the result (Region/Mesh consistency)
        n2 = swap_odd(k, a, b, list(n))
        for idx in [tuple([0] * nd), tuple(v - 1 for v in n)]:
            p = [pmin[i] + (idx[i] + 0.5) * c[i] for i in range(nd)]
            q = rot_point(k, a, b, R, p)
            j = rot_index(k, a, b, n, idx)
            sx.check(f"k={k}:centre{idx}", sx.eq(list(res.index2point(j)), q))


def _mapping(cfg, vd, dims):
    """vdim_mapping dict from cfg['perm'] (component i -> dims[perm[i]] or a non-axis name), optional insertion order"""
    perm = cfg.get("perm")
    if perm is None:
        return None
    items = []
    for i, t in enumerate(perm):
        items.append((vd[i], dims[t] if isinstance(t, int) else t))
    order = cfg.get("insert_order")
    if order:
        items = [items[i] for i in order]
    return dict(items)


def h_field(sx, cfg):
    df = lib.load()
    build, n, nd, dims, units, pmin, e, c, boxes = _mesh(sx, df, cfg)
    a, b = cfg["a"], cfg["b"]
    nv = cfg["nvdim"]
    Rarg, R = _ref(sx, cfg, nd, pmin, e)
    vals = sx.real_array("v", (*n, nv))
    valid = sx.bool_array("ok", n)
    vd = cfg.get("vdims")
    if vd is None and nv > 1:
        vd = ["x", "y", "z"][:nv] if nv <= 3 else [f"v{i}" for i in range(nv)]
    mapping = _mapping(cfg, vd, dims) if nv > 1 else None
    for k in cfg["ks"]:
        f = df.Field(build(), nvdim=nv, value=vals.copy(), valid=valid.copy(), vdims=vd, vdim_mapping=mapping, unit="T")
        pre_mapping = dict(f.vdim_mapping)
        g = f.rotate90(dims[a], dims[b], k=k, reference_point=Rarg, inplace=cfg["inplace"])
        tag = f"k={k}:"
        _check_mesh(sx, tag + "mesh-", g.mesh, k, a, b, R, n, dims, units, pmin, e, boxes, cfg.get("bc", ""))
        sx.check(tag + "meta", g.nvdim == nv and g.vdims == (list(vd) if vd else None) and g.vdim_mapping == pre_mapping and g.unit == "T")
        n2 = tuple(swap_odd(k, a, b, list(n)))
        sx.check(tag + "shapes", tuple(g.array.shape) == (*n2, nv) and tuple(np.shape(g.valid)) == n2)
        if cfg["inplace"]:
            sx.check(tag + "inplace-returns-self", g is f)
        else:
            sx.check(tag + "copy-is-new", g is not f)
            sx.check(tag + "original-array", sx.eq(f.array, vals))
            sx.check(tag + "original-valid", sx.And(*[sx.eq(sx.truth(x), sx.truth(y)) for x, y in zip(np.asarray(f.valid, dtype=object).flat, np.asarray(valid, dtype=object).flat)]))
            _check_mesh(sx, tag + "original-mesh-", f.mesh, 0, a, b, R, n, dims, units, pmin, e, boxes, cfg.get("bc", ""))
        # component pair that rotates
        ia = ib = None
        if nv > 1:
            rmap = {v: kx for kx, v in pre_mapping.items()}
            ia, ib = vd.index(rmap[dims[a]]), vd.index(rmap[dims[b]])
        for idx in np.ndindex(*n):
            j = rot_index(k, a, b, n, idx)
            p = [pmin[i] + (idx[i] + 0.5) * c[i] for i in range(nd)]
            q = rot_point(k, a, b, R, p)
            sx.check(f"{tag}centre{idx}", sx.eq(list(g.mesh.index2point(j)), q))
            old = [vals[idx + (m,)] for m in range(nv)]
            new = list(old)
            if nv > 1:
                new[ia], new[ib] = qturn(k, old[ia], old[ib])
            sx.check(f"{tag}value{idx}", sx.eq(list(g.array[j]), new))
            sx.check(f"{tag}valid{idx}", sx.eq(sx.truth(g.valid[j]), sx.truth(valid[idx])))


def h_refusals(sx, cfg):
    df = lib.load()
    pmin, e, p1, p2 = region_inputs(sx, 3)
    r = df.Region(p1=p1, p2=p2)
    m = df.Mesh(region=r, n=(2, 1, 2))
    vals = sx.real_array("v", (2, 1, 2, 2))
    f2 = df.Field(m, nvdim=2, value=vals)  # two components on a 3-d mesh: no default mapping
    f2m = df.Field(m, nvdim=2, value=vals, vdims=["p", "q"], vdim_mapping={"p": "x", "q": "z"})
    for name, call, exc in (
        ("region-same-axis", lambda: r.rotate90("x", "x"), ValueError),
        ("region-float-k", lambda: r.rotate90("x", "y", k=1.0), TypeError),
        ("region-unknown-axis", lambda: r.rotate90("x", "q"), ValueError),
        ("region-bad-ref-length", lambda: r.rotate90("x", "y", reference_point=(0, 0)), ValueError),
        ("region-bad-ref-type", lambda: r.rotate90("x", "y", reference_point="abc"), TypeError),
        ("mesh-same-axis", lambda: m.rotate90("y", "y"), ValueError),
        ("mesh-float-k", lambda: m.rotate90("x", "y", k=2.5), TypeError),
        ("field-no-mapping", lambda: f2.rotate90("x", "y"), RuntimeError),
        ("field-partial-mapping", lambda: f2m.rotate90("x", "y"), RuntimeError),
    ):
        try:
            call()
        except (ValueError, TypeError, RuntimeError) as ex:
            sx.check(name, isinstance(ex, exc))
        else:
            sx.check(name, False)
    # the mapped plane of the partially mapped field still rotates
    g = f2m.rotate90("x", "z", k=1)
    sx.check("partial-mapping-mapped-plane-ok", tuple(g.array.shape) == (2, 1, 2, 2))


def tasks(tier):
    t = []
    quick = tier == "quick"
    kgroups = [[1, -1], [2, -2], [3, 0], [-5, 6], [5, -3, 4]] if quick else [[1, -1, 5], [2, -2, 6], [3, 0, -9], [-5, 10, -4], [7, -3, 4, 9, -7, 8, -6, -8]]
    pairs2 = [(0, 1), (1, 0)]
    pairs3 = list(itertools.permutations(range(3), 2))
    pairs4 = list(itertools.permutations(range(4), 2))
    gi = 0

    def ks():
        nonlocal gi
        gi += 1
        return kgroups[gi % len(kgroups)]

    # regions
    for nd, pairs in ((2, pairs2), (3, pairs3)) + (() if quick else ((4, pairs4[::2]),)):
        for (a, b) in pairs:
            for ref in ("default", "tuple"):
                for inplace in (False, True):
                    t.append(dict(harness="h_region", cfg=dict(ndim=nd, a=a, b=b, ks=ks(), ref=ref, inplace=inplace,
                                                               dims="renamed" if (a + nd) % 2 else "default")))
    # meshes
    mesh_cfgs = [((3, 2), pairs2), ((2, 1, 3), pairs3)] if quick else [((3, 2), pairs2), ((1, 4), pairs2), ((2, 1, 3), pairs3), ((3, 2, 2), pairs3), ((2, 1, 3, 2), pairs4[::3])]
    for n, pairs in mesh_cfgs:
        for (a, b) in pairs:
            for inplace in (False, True):
                for sub in ("none", "two"):
                    ref = "default" if (a + b + (sub == "two") + inplace) % 2 else "list"
                    t.append(dict(harness="h_mesh", cfg=dict(n=list(n), a=a, b=b, ks=ks(), ref=ref, inplace=inplace, subregions=sub,
                                                             bc="" if sub == "none" else dims_bc(len(n)))))
    # fields
    fcfgs = []
    for (a, b) in pairs2:
        fcfgs.append(dict(n=[3, 2], a=a, b=b, nvdim=1))
        fcfgs.append(dict(n=[2, 3], a=a, b=b, nvdim=2, perm=[0, 1]))
        fcfgs.append(dict(n=[3, 2], a=a, b=b, nvdim=2, perm=[1, 0], insert_order=[1, 0]))
        fcfgs.append(dict(n=[2, 2], a=a, b=b, nvdim=3, perm=[1, "z", 0], vdims=["p", "q", "r"], insert_order=[2, 0, 1]))
    perms3 = list(itertools.permutations(range(3)))
    for i, (a, b) in enumerate(pairs3):
        fcfgs.append(dict(n=[2, 1, 3], a=a, b=b, nvdim=3, perm=list(perms3[i % 6]), vdims=["a", "b", "c"], insert_order=[2, 0, 1] if i % 2 else None,
                          subregions="two" if i % 3 == 0 else "none"))
        fcfgs.append(dict(n=[1, 2, 2], a=a, b=b, nvdim=1 if i % 2 else 3, perm=None if i % 2 else [0, 1, 2]))
    if not quick:
        for i, perm in enumerate(perms3):
            for (a, b) in pairs3[::2]:
                fcfgs.append(dict(n=[2, 3, 1], a=a, b=b, nvdim=3, perm=list(perm), insert_order=[1, 2, 0]))
        fcfgs.append(dict(n=[2, 1, 2, 2], a=0, b=3, nvdim=4, perm=[3, 2, 1, 0]))
        fcfgs.append(dict(n=[2, 1, 2, 2], a=2, b=1, nvdim=1))
    for i, fc in enumerate(fcfgs):
        for inplace in (False, True):
            cfg = dict(fc, ks=ks(), inplace=inplace, ref="default" if (i + inplace) % 2 else "tuple")
            t.append(dict(harness="h_field", cfg=cfg))
    t.append(dict(harness="h_refusals", cfg={}))
    return t


def dims_bc(nd):
    # periodic directions are named by single characters, so the default 4-d names (x0..x3) cannot be periodic
    return "x" if nd <= 3 else "neumann"
