#!/bin/sh
# usage: tools/mutmatrix.sh <repo-copy> [tier] [ids...]  -- apply every seeded change to a scratch copy of the repository
# (never /repo), run the quick check of its property against that copy (VERIF_REPO_ROOT), undo; one line per change.
REPO=$1; TIER=${2:-quick}; shift; shift
HERE=$(cd "$(dirname "$0")/.." && pwd)
[ "$REPO" = "/repo" ] && { echo "refusing to mutate /repo"; exit 9; }
IDS=${@:-$(ls "$HERE/seeded" | grep -E '^C[0-9]+-m[0-9]+$')}
for ID in $IDS; do
  P="$HERE/seeded/$ID/patch.diff"; [ -f "$HERE/seeded/_rebased/$ID.diff" ] && P="$HERE/seeded/_rebased/$ID.diff"
  PROP=${ID%%-*}
  git -C "$REPO" checkout -q -- . 
  if ! git -C "$REPO" apply "$P" 2>/dev/null; then
    if ! git -C "$REPO" apply --3way "$P" >/dev/null 2>&1; then echo "$ID $PROP PATCH-DOES-NOT-APPLY"; git -C "$REPO" reset -q --hard HEAD; continue; fi
    git -C "$REPO" reset -q
  fi
  OUT=$(VERIF_REPO_ROOT="$REPO" "$HERE/bin/check" "$PROP" --tier "$TIER" 2>&1); RC=$?
  NV=$(echo "$OUT" | grep -c '^VIOLATION')
  H=$(echo "$OUT" | grep '^VIOLATION' | sed 's/.*replays\/[^/]*\///; s/-[0-9a-f]*\.json//' | sort | uniq -c | tr '\n' ' ')
  echo "$ID $PROP exit=$RC violations=$NV harnesses: $H"
  git -C "$REPO" checkout -q -- .
done
